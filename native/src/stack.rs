use crate::guarded;
use pest::Stack;

fn contents(s: &Stack<u8>) -> String {
    let v: Vec<String> = s[0..s.len()].iter().map(|x| x.to_string()).collect();
    format!("[{}]", v.join(","))
}

fn apply(s: &mut Stack<u8>, tok: &str) -> String {
    let (op, arg) = tok.split_at(1);
    match op {
        "p" => {
            s.push(arg.parse().unwrap());
            "-".into()
        }
        "o" => match s.pop() {
            Some(x) => x.to_string(),
            None => "N".into(),
        },
        "k" => match s.peek() {
            Some(x) => x.to_string(),
            None => "N".into(),
        },
        "s" => {
            s.snapshot();
            "-".into()
        }
        "c" => {
            s.clear_snapshot();
            "-".into()
        }
        "r" => {
            s.restore();
            "-".into()
        }
        _ => panic!("bad op {tok}"),
    }
}

/// line: space separated ops (p<u8> o k s c r). reply: per op `ret:len:[contents]` separated by spaces, or PANIC <msg>
pub fn history(line: &str) -> String {
    let line = line.to_string();
    let r = guarded(move || {
        let mut s: Stack<u8> = Stack::new();
        let mut out = Vec::new();
        for tok in line.split_whitespace() {
            let ret = apply(&mut s, tok);
            out.push(format!("{}:{}:{}", ret, s.len(), contents(&s)));
        }
        out.join(" ")
    });
    match r {
        Ok(s) => s,
        Err(m) => format!("PANIC {}", m.replace('\n', " ")),
    }
}

fn parse_list(s: &str) -> Vec<usize> {
    s.split(',').filter(|x| !x.is_empty()).map(|x| x.parse().unwrap()).collect()
}

/// line: `cache|popped|l0:r0,l1:r1|op` (lists comma separated). reply: `ret|cache|popped|lengths` or PANIC
#[cfg(pest_parser_pest_verif)]
pub fn step(line: &str) -> String {
    let line = line.to_string();
    let r = guarded(move || {
        let parts: Vec<&str> = line.split('|').collect();
        let cache: Vec<u8> = parse_list(parts[0]).into_iter().map(|x| x as u8).collect();
        let popped: Vec<u8> = parse_list(parts[1]).into_iter().map(|x| x as u8).collect();
        let lengths: Vec<(usize, usize)> = parts[2]
            .split(',')
            .filter(|x| !x.is_empty())
            .map(|p| {
                let (a, b) = p.split_once(':').unwrap();
                (a.parse().unwrap(), b.parse().unwrap())
            })
            .collect();
        let mut s = Stack::verif_from_parts(cache, popped, lengths);
        let ret = apply(&mut s, parts[3].trim());
        let (c, p, l) = s.verif_parts();
        let j = |v: &[u8]| v.iter().map(|x| x.to_string()).collect::<Vec<_>>().join(",");
        format!("{}|{}|{}|{}", ret, j(c), j(p), l.iter().map(|(a, b)| format!("{a}:{b}")).collect::<Vec<_>>().join(","))
    });
    match r {
        Ok(s) => s,
        Err(m) => format!("PANIC {}", m.replace('\n', " ")),
    }
}

#[cfg(not(pest_parser_pest_verif))]
pub fn step(_line: &str) -> String {
    "NOHOOK".into()
}
