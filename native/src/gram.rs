//! grammar front-end and VM runs
use crate::guarded;
use crate::prog::{hex, unhex};
use pest_meta::ast::{Expr, Rule, RuleType};
use pest_meta::optimizer::{OptimizedExpr, OptimizedRule};

fn ty(t: RuleType) -> &'static str {
    match t {
        RuleType::Normal => "normal",
        RuleType::Silent => "silent",
        RuleType::Atomic => "atomic",
        RuleType::CompoundAtomic => "compound",
        RuleType::NonAtomic => "nonatomic",
    }
}

fn opt_i(e: &Option<i32>) -> String {
    e.map(|x| x.to_string()).unwrap_or("-".into())
}

pub fn expr(e: &Expr) -> String {
    match e {
        Expr::Str(s) => format!("(str {})", hex(s)),
        Expr::Insens(s) => format!("(insens {})", hex(s)),
        Expr::Range(a, b) => format!("(range {} {})", hex(a), hex(b)),
        Expr::Ident(n) => format!("(ident {n})"),
        Expr::PeekSlice(a, b) => format!("(peek_slice {a} {})", opt_i(b)),
        Expr::PosPred(e) => format!("(pos {})", expr(e)),
        Expr::NegPred(e) => format!("(neg {})", expr(e)),
        Expr::Seq(a, b) => format!("(seq {} {})", expr(a), expr(b)),
        Expr::Choice(a, b) => format!("(choice {} {})", expr(a), expr(b)),
        Expr::Opt(e) => format!("(opt {})", expr(e)),
        Expr::Rep(e) => format!("(rep {})", expr(e)),
        Expr::RepOnce(e) => format!("(rep_once {})", expr(e)),
        Expr::RepExact(e, n) => format!("(rep_exact {n} {})", expr(e)),
        Expr::RepMin(e, n) => format!("(rep_min {n} {})", expr(e)),
        Expr::RepMax(e, n) => format!("(rep_max {n} {})", expr(e)),
        Expr::RepMinMax(e, m, n) => format!("(rep_min_max {m} {n} {})", expr(e)),
        Expr::Skip(v) => format!("(skip {})", v.iter().map(|s| hex(s)).collect::<Vec<_>>().join(" ")),
        Expr::Push(e) => format!("(push {})", expr(e)),
        #[cfg(feature = "grammar-extras")]
        Expr::PushLiteral(s) => format!("(push_lit {})", hex(s)),
        #[cfg(feature = "grammar-extras")]
        Expr::NodeTag(e, t) => format!("(tag {} {})", hex(t), expr(e)),
    }
}

pub fn oexpr(e: &OptimizedExpr) -> String {
    match e {
        OptimizedExpr::Str(s) => format!("(str {})", hex(s)),
        OptimizedExpr::Insens(s) => format!("(insens {})", hex(s)),
        OptimizedExpr::Range(a, b) => format!("(range {} {})", hex(a), hex(b)),
        OptimizedExpr::Ident(n) => format!("(ident {n})"),
        OptimizedExpr::PeekSlice(a, b) => format!("(peek_slice {a} {})", opt_i(b)),
        OptimizedExpr::PosPred(e) => format!("(pos {})", oexpr(e)),
        OptimizedExpr::NegPred(e) => format!("(neg {})", oexpr(e)),
        OptimizedExpr::Seq(a, b) => format!("(seq {} {})", oexpr(a), oexpr(b)),
        OptimizedExpr::Choice(a, b) => format!("(choice {} {})", oexpr(a), oexpr(b)),
        OptimizedExpr::Opt(e) => format!("(opt {})", oexpr(e)),
        OptimizedExpr::Rep(e) => format!("(rep {})", oexpr(e)),
        #[cfg(feature = "grammar-extras")]
        OptimizedExpr::RepOnce(e) => format!("(rep_once {})", oexpr(e)),
        OptimizedExpr::Skip(v) => format!("(skip {})", v.iter().map(|s| hex(s)).collect::<Vec<_>>().join(" ")),
        OptimizedExpr::Push(e) => format!("(push {})", oexpr(e)),
        #[cfg(feature = "grammar-extras")]
        OptimizedExpr::PushLiteral(s) => format!("(push_lit {})", hex(s)),
        #[cfg(feature = "grammar-extras")]
        OptimizedExpr::NodeTag(e, t) => format!("(tag {} {})", hex(t), oexpr(e)),
        OptimizedExpr::RestoreOnErr(e) => format!("(restore_on_err {})", oexpr(e)),
    }
}

fn rules(rs: &[Rule]) -> String {
    rs.iter().map(|r| format!("(rule {} {} {})", r.name, ty(r.ty), expr(&r.expr))).collect::<Vec<_>>().join(" ")
}
fn orules(rs: &[OptimizedRule]) -> String {
    rs.iter().map(|r| format!("(rule {} {} {})", r.name, ty(r.ty), oexpr(&r.expr))).collect::<Vec<_>>().join(" ")
}

/// request: grammar text in hex. reply: `OK ast=<rules> ## <stage>=<rules> ## ...` for every pipeline stage, or `ERR n first-message-hex`, or PANIC
pub fn front(line: &str) -> String {
    let text = unhex(line.trim());
    let r = guarded(move || {
        use pest_meta::parser::{self, Rule as MR};
        let pairs = match parser::parse(MR::grammar_rules, &text) {
            Ok(p) => p,
            Err(e) => return format!("ERR parse 1 {}", hex(&format!("{e}"))),
        };
        // what the derive does with the pairs before validating them
        let _ = pest_generator::docs::consume(pairs.clone());
        if let Err(es) = pest_meta::validator::validate_pairs(pairs.clone()) {
            return format!("ERR validate {} {}", es.len(), es.iter().map(|e| hex(&format!("{e}"))).collect::<Vec<_>>().join(","));
        }
        let ast = match parser::consume_rules(pairs) {
            Ok(a) => a,
            Err(es) => return format!("ERR consume {} {}", es.len(), es.iter().map(|e| hex(&format!("{e}"))).collect::<Vec<_>>().join(",")),
        };
        let mut out = vec![format!("ast={}", rules(&ast))];
        #[cfg(pest_parser_pest_verif)]
        {
            use pest_meta::optimizer::verif;
            let mut cur = ast.clone();
            for p in verif::AST_PASSES {
                // each pass on its own (applied to the unoptimized rules) and cumulatively
                let alone = verif::apply_ast_pass(p, ast.clone());
                out.push(format!("only_{p}={}", rules(&alone)));
                cur = verif::apply_ast_pass(p, cur);
                out.push(format!("upto_{p}={}", rules(&cur)));
            }
            out.push(format!("pre_restore={}", orules(&verif::convert(cur.clone()))));
            out.push(format!("post_restore={}", orules(&verif::apply_restore_on_err(verif::convert(cur)))));
        }
        out.push(format!("optimized={}", orules(&pest_meta::optimizer::optimize(ast))));
        format!("OK {}", out.join(" ## "))
    });
    r.unwrap_or_else(|m| format!("PANIC {}", m.replace('\n', " ")))
}

// ---------------------------------------------------------------- reading optimized rules back (for VM runs on a given stage)
use crate::prog::Rd;

/// request: `<detail> <limit> <input-hex>[+<input-hex>..] <start-rule> <grammar-hex>`; reply in the `state=` format of prog.rs
pub fn vm(line: &str) -> String {
    let mut it = line.splitn(5, ' ');
    let detail = it.next().unwrap() == "1";
    let limit: usize = it.next().unwrap().parse().unwrap();
    // `<hex>+<hex>+..`: the texts are parsed one after the other on the same Vm; the reply describes the last parse
    let inputs: Vec<String> = it.next().unwrap().split('+').map(unhex).collect();
    let start = it.next().unwrap().to_string();
    let text = unhex(it.next().unwrap());
    pest::set_error_detail(detail);
    pest::set_call_limit(std::num::NonZeroUsize::new(limit));
    let r = guarded(move || {
        // the optimized rules of the previous request's grammar are kept (consecutive requests mostly share the grammar);
        // the Vm itself is built anew for every request
        thread_local! { static LAST: std::cell::RefCell<Option<(String, Vec<pest_meta::optimizer::OptimizedRule>)>> = const { std::cell::RefCell::new(None) }; }
        let cached = LAST.with(|l| l.borrow().as_ref().filter(|(t, _)| *t == text).map(|(_, r)| r.clone()));
        let rules = match cached {
            Some(r) => r,
            None => {
                let (_, rules) = match pest_meta::parse_and_optimize(&text) {
                    Ok(x) => x,
                    Err(es) => return format!("GRAMMAR-ERR {}", es.len()),
                };
                LAST.with(|l| *l.borrow_mut() = Some((text.clone(), rules.clone())));
                rules
            }
        };
        let vm = pest_vm::Vm::new(rules);
        for earlier in &inputs[..inputs.len() - 1] {
            let _ = vm.parse(&start, earlier);
        }
        fmt_result(vm.parse(&start, &inputs[inputs.len() - 1]))
    });
    r.unwrap_or_else(|m| format!("PANIC {}", m.replace('\n', " ")))
}

pub fn fmt_result<R: pest::RuleType + std::fmt::Display>(r: Result<pest::iterators::Pairs<'_, R>, pest::error::Error<R>>) -> String {
    use pest::error::{ErrorVariant, InputLocation, LineColLocation};
    match r {
        Ok(pairs) => {
            let mut toks: Vec<String> = Vec::new();
            for t in pairs.clone().tokens() {
                toks.push(match t {
                    pest::Token::Start { rule, pos } => format!("S{rule}@{}", pos.pos()),
                    pest::Token::End { rule, pos } => format!("E{rule}@{}", pos.pos()),
                });
            }
            // node tags, in flattened order
            let tags: Vec<String> = pairs.flatten().map(|p| p.as_node_tag().map(|t| hex(t)).unwrap_or("-".into())).collect();
            format!("OK {} tags={}", toks.join(","), tags.join(","))
        }
        Err(e) => {
            let loc = match e.location {
                InputLocation::Pos(p) => format!("{p}"),
                InputLocation::Span((a, b)) => format!("{a}-{b}"),
            };
            let lc = match e.line_col {
                LineColLocation::Pos((l, c)) => format!("{l}:{c}"),
                LineColLocation::Span((l, c), (l2, c2)) => format!("{l}:{c}-{l2}:{c2}"),
            };
            let l = |v: &Vec<R>| v.iter().map(|x| x.to_string()).collect::<Vec<_>>().join(",");
            let var = match &e.variant {
                ErrorVariant::ParsingError { positives, negatives } => format!("P[{}]N[{}]", l(positives), l(negatives)),
                ErrorVariant::CustomError { message } => format!("C[{}]", message),
            };
            let rendered = guarded(std::panic::AssertUnwindSafe(|| format!("{e}"))).map(|s| s.len().to_string()).unwrap_or_else(|m| format!("RENDER-PANIC {m}"));
            format!("ERR at={loc} lc={lc} {var} line={} rendered={rendered}", hex(e.line()))
        }
    }
}

/// request: `<struct-name> <grammar-hex>`; reply: `OK <generated rust source in hex>` or ERR/PANIC
pub fn generate(line: &str) -> String {
    let (name, g) = line.split_once(' ').unwrap();
    let text = unhex(g.trim());
    let name = name.to_string();
    let r = guarded(move || {
        let ident = proc_macro2::Ident::new(&name, proc_macro2::Span::call_site());
        let input = quote::quote! {
            #[grammar_inline = #text]
            pub struct #ident;
        };
        let ts = pest_generator::derive_parser(input, false);
        format!("OK {}", hex(&ts.to_string()))
    });
    r.unwrap_or_else(|m| format!("PANIC {}", hex(&m)))
}

/// the checked-in bootstrapped meta-parser. request: `<rule> <input-hex>`; reply in the vm format
pub fn meta(line: &str) -> String {
    let (rule, inp) = line.split_once(' ').unwrap();
    let input = unhex(inp.trim());
    let rule = rule.to_string();
    let r = guarded(move || {
        let r = match pest_meta::parser::Rule::all_rules().iter().find(|r| format!("{r:?}") == rule) {
            Some(r) => *r,
            None => return "NORULE".to_string(),
        };
        fmt_result_dbg(pest_meta::parser::parse(r, &input))
    });
    r.unwrap_or_else(|m| format!("PANIC {}", m.replace('\n', " ")))
}

pub fn fmt_result_dbg<R: pest::RuleType>(r: Result<pest::iterators::Pairs<'_, R>, pest::error::Error<R>>) -> String {
    use pest::error::{ErrorVariant, InputLocation};
    match r {
        Ok(pairs) => {
            let toks: Vec<String> = pairs.clone().tokens().map(|t| match t {
                pest::Token::Start { rule, pos } => format!("S{rule:?}@{}", pos.pos()),
                pest::Token::End { rule, pos } => format!("E{rule:?}@{}", pos.pos()),
            }).collect();
            let tags: Vec<String> = pairs.flatten().map(|p| p.as_node_tag().map(|t| hex(t)).unwrap_or("-".into())).collect();
            format!("OK {} tags={}", toks.join(","), tags.join(","))
        }
        Err(e) => {
            let loc = match e.location { InputLocation::Pos(p) => format!("{p}"), InputLocation::Span((a, b)) => format!("{a}-{b}") };
            let l = |v: &Vec<R>| v.iter().map(|x| format!("{x:?}")).collect::<Vec<_>>().join(",");
            let var = match &e.variant {
                ErrorVariant::ParsingError { positives, negatives } => format!("P[{}]N[{}]", l(positives), l(negatives)),
                ErrorVariant::CustomError { message } => format!("C[{}]", message),
            };
            format!("ERR at={loc} lc=- {var}")
        }
    }
}

/// request: text in hex; reply `SOME <hex>` / `NONE` (through the cfg-guarded hook)
#[cfg(pest_parser_pest_verif)]
pub fn unescape_cmd(line: &str) -> String {
    let t = unhex(line.trim());
    guarded(move || match pest_meta::parser::verif_unescape(&t) {
        Some(s) => format!("SOME {}", hex(&s)),
        None => "NONE".to_string(),
    })
    .unwrap_or_else(|m| format!("PANIC {}", m.replace('\n', " ")))
}
#[cfg(not(pest_parser_pest_verif))]
pub fn unescape_cmd(_line: &str) -> String {
    "NOHOOK".into()
}

/// request: `<pos> <text-hex>`; reply `<line>:<col> <line>:<col>` (Pair::line_col through PairsBuilder, Position::line_col)
pub fn linecol(line: &str) -> String {
    let (p, t) = line.split_once(' ').unwrap();
    let pos: usize = p.parse().unwrap();
    let text = unhex(t.trim());
    guarded(move || {
        let pairs = pest::iterators::PairsBuilder::new(&text).rule(0u8, pos, pos).build();
        let a = pairs.peek().unwrap().line_col();
        let b = pest::Position::new(&text, pos).unwrap().line_col();
        format!("{}:{} {}:{}", a.0, a.1, b.0, b.1)
    })
    .unwrap_or_else(|m| format!("PANIC {}", m.replace('\n', " ")))
}

/// request: `<start> <end|-> <text-hex>`; reply `OK <rendered-hex>` for `Error::new_from_pos` (end = `-`) / `Error::new_from_span`
/// with a CustomError "boom", rendered through `Display`; `NOPOS` when the offsets are rejected
pub fn render(line: &str) -> String {
    let mut it = line.split(' ');
    let s: usize = it.next().unwrap().parse().unwrap();
    let e = it.next().unwrap().to_string();
    let text = unhex(it.next().unwrap_or("").trim());
    guarded(move || {
        use pest::error::{Error, ErrorVariant};
        let var = ErrorVariant::<u8>::CustomError { message: "boom".to_string() };
        let err = if e == "-" {
            match pest::Position::new(&text, s) { Some(p) => Error::new_from_pos(var, p), None => return "NOPOS".to_string() }
        } else {
            match pest::Span::new(&text, s, e.parse().unwrap()) { Some(sp) => Error::new_from_span(var, sp), None => return "NOPOS".to_string() }
        };
        format!("OK {}", hex(&err.to_string()))
    })
    .unwrap_or_else(|m| format!("PANIC {}", m.replace('\n', " ")))
}

include!(concat!(env!("CARGO_MANIFEST_DIR"), "/gen_unicode.rs"));

/// request: a Unicode property name as accepted by pest::unicode::by_name; reply: the maximal ranges of scalar values
/// for which the *compiled* property function is true, `a-b,c-d,..` (hex), or NONE
pub fn unicode_ranges(line: &str) -> String {
    let name = line.trim().to_string();
    guarded(move || {
        // `fn:NAME`: the property function itself; `NAME`: what by_name resolves (the table's trie)
        let f: Box<dyn Fn(char) -> bool> = if let Some(id) = name.strip_prefix("core:") {
            // predicates of `char` itself (core's own tables)
            match id {
                "is_alphabetic" => Box::new(|c: char| c.is_alphabetic()),
                "is_lowercase" => Box::new(|c: char| c.is_lowercase()),
                "is_uppercase" => Box::new(|c: char| c.is_uppercase()),
                "is_numeric" => Box::new(|c: char| c.is_numeric()),
                "is_alphanumeric" => Box::new(|c: char| c.is_alphanumeric()),
                "is_whitespace" => Box::new(|c: char| c.is_whitespace()),
                "is_control" => Box::new(|c: char| c.is_control()),
                _ => return "NONE".to_string(),
            }
        } else if let Some(id) = name.strip_prefix("fn:") {
            match unicode_fn(id) {
                Some(f) => Box::new(f),
                None => return "NONE".to_string(),
            }
        } else {
            match pest::unicode::by_name(&name) {
                Some(f) => f,
                None => return "NONE".to_string(),
            }
        };
        let mut out: Vec<String> = Vec::new();
        let mut start: Option<u32> = None;
        let mut prev = 0u32;
        for cp in 0..=0x10FFFFu32 {
            let hit = char::from_u32(cp).map(|c| f(c)).unwrap_or(false);
            match (hit, start) {
                (true, None) => start = Some(cp),
                (false, Some(s)) => {
                    out.push(format!("{s:x}-{prev:x}"));
                    start = None;
                }
                _ => {}
            }
            if hit {
                prev = cp;
            }
        }
        if let Some(s) = start {
            out.push(format!("{s:x}-{prev:x}"));
        }
        format!("OK {}", out.join(","))
    })
    .unwrap_or_else(|m| format!("PANIC {}", m.replace('\n', " ")))
}
