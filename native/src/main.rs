//! verif-native: concrete executions of the real compiled crates, used to replay solver counterexamples and to
//! validate every path the MIR executor explores. Line-oriented: one request per stdin line, one reply per line.
#![allow(dead_code, unused_imports, clippy::all)]
use std::io::{BufRead, Write};

mod stack;
mod prog;
mod gram;

fn main() {
    let args: Vec<String> = std::env::args().collect();
    let cmd = args.get(1).map(|s| s.as_str()).unwrap_or("");
    let stdin = std::io::stdin();
    let out = std::io::stdout();
    let mut out = std::io::BufWriter::new(out.lock());
    match cmd {
        "stack-hist" => {
            for line in stdin.lock().lines() {
                let line = line.unwrap();
                writeln!(out, "{}", stack::history(&line)).unwrap();
            }
        }
        "stack-step" => {
            for line in stdin.lock().lines() {
                let line = line.unwrap();
                writeln!(out, "{}", stack::step(&line)).unwrap();
            }
        }
        "grammar" => {
            for line in stdin.lock().lines() {
                let line = line.unwrap();
                writeln!(out, "{}", gram::front(&line)).unwrap();
            }
        }
        "gen" => {
            for line in stdin.lock().lines() {
                let line = line.unwrap();
                writeln!(out, "{}", gram::generate(&line)).unwrap();
            }
        }
        "unescape" => {
            for line in stdin.lock().lines() {
                let line = line.unwrap();
                writeln!(out, "{}", gram::unescape_cmd(&line)).unwrap();
            }
        }
        "linecol" => {
            for line in stdin.lock().lines() {
                let line = line.unwrap();
                writeln!(out, "{}", gram::linecol(&line)).unwrap();
            }
        }
        "render" => {
            for line in stdin.lock().lines() {
                let line = line.unwrap();
                writeln!(out, "{}", gram::render(&line)).unwrap();
            }
        }
        "unicode-names" => {
            // the advertised names, from the compiled function
            let names: Vec<&str> = pest::unicode::unicode_property_names().collect();
            writeln!(out, "{}", names.join(",")).unwrap();
        }
        "unicode-ranges" => {
            for line in stdin.lock().lines() {
                let line = line.unwrap();
                writeln!(out, "{}", gram::unicode_ranges(&line)).unwrap();
            }
        }
        "meta" => {
            for line in stdin.lock().lines() {
                let line = line.unwrap();
                writeln!(out, "{}", gram::meta(&line)).unwrap();
            }
        }
        "vm" => {
            for line in stdin.lock().lines() {
                let line = line.unwrap();
                writeln!(out, "{}", gram::vm(&line)).unwrap();
            }
        }
        "prog" => {
            for line in stdin.lock().lines() {
                let line = line.unwrap();
                writeln!(out, "{}", prog::request(&line)).unwrap();
            }
        }
        _ => {
            eprintln!("unknown command {cmd}");
            std::process::exit(64);
        }
    }
}

/// run f, turning a panic into Err(message)
pub fn guarded<T>(f: impl FnOnce() -> T + std::panic::UnwindSafe) -> Result<T, String> {
    std::panic::catch_unwind(f).map_err(|e| {
        if let Some(s) = e.downcast_ref::<&str>() {
            s.to_string()
        } else if let Some(s) = e.downcast_ref::<String>() {
            s.clone()
        } else {
            "panic".to_string()
        }
    })
}
