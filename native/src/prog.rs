//! combinator program trees run against the real ParserState (R = u8)
use crate::guarded;
use pest::{Atomicity, MatchDir, ParseResult, ParserState};

#[derive(Debug, Clone)]
pub enum Node {
    Str(String),
    Insens(String),
    Range(char, char),
    CharBy(String),
    Skip(usize),
    SkipUntil(Vec<String>),
    Soi,
    Eoi,
    Seq(Vec<Node>),
    Chain(Vec<Node>),
    Choice(Vec<Node>),
    Opt(Box<Node>),
    Rep(Box<Node>),
    Look(bool, Box<Node>),
    Atomic(u8, Box<Node>),
    Rule(u8, Box<Node>),
    Push(Box<Node>),
    PushLit(String),
    RestoreOnErr(Box<Node>),
    Pop,
    Peek,
    Drop,
    MatchPeek,
    MatchPop,
    PeekSlice(i32, Option<i32>, bool),
    Tag(String, Box<Node>),
}

// ---------------------------------------------------------------- s-expression reader
pub struct Rd<'a> {
    pub t: Vec<&'a str>,
    pub i: usize,
}

fn tokens(s: &str) -> Vec<&str> {
    let mut out = Vec::new();
    let b = s.as_bytes();
    let mut i = 0;
    while i < b.len() {
        match b[i] {
            b' ' => i += 1,
            b'(' | b')' => {
                out.push(&s[i..i + 1]);
                i += 1
            }
            _ => {
                let j = i;
                while i < b.len() && !matches!(b[i], b' ' | b'(' | b')') {
                    i += 1
                }
                out.push(&s[j..i]);
            }
        }
    }
    out
}

pub fn unhex(s: &str) -> String {
    let s = if s == "-" { "" } else { s };
    let b: Vec<u8> = (0..s.len() / 2).map(|i| u8::from_str_radix(&s[2 * i..2 * i + 2], 16).unwrap()).collect();
    String::from_utf8(b).expect("utf8")
}

impl<'a> Rd<'a> {
    pub fn new(s: &'a str) -> Self {
        Rd { t: tokens(s), i: 0 }
    }
    fn next(&mut self) -> &'a str {
        let x = self.t[self.i];
        self.i += 1;
        x
    }
    fn peek(&self) -> &'a str {
        self.t[self.i]
    }
    fn children(&mut self) -> Vec<Node> {
        let mut v = Vec::new();
        while self.peek() != ")" {
            v.push(self.node());
        }
        v
    }
    fn ch(&mut self) -> char {
        char::from_u32(u32::from_str_radix(self.next(), 16).unwrap()).unwrap()
    }
    pub fn node(&mut self) -> Node {
        assert_eq!(self.next(), "(");
        let head = self.next();
        let n = match head {
            "str" => Node::Str(unhex(self.next())),
            "insens" => Node::Insens(unhex(self.next())),
            "range" => {
                let a = self.ch();
                let b = self.ch();
                Node::Range(a, b)
            }
            "charby" => Node::CharBy(self.next().to_string()),
            "skip" => Node::Skip(self.next().parse().unwrap()),
            "skip_until" => {
                let mut v = Vec::new();
                while self.peek() != ")" {
                    v.push(unhex(self.next()));
                }
                Node::SkipUntil(v)
            }
            "soi" => Node::Soi,
            "eoi" => Node::Eoi,
            "seq" => Node::Seq(self.children()),
            "chain" => Node::Chain(self.children()),
            "choice" => Node::Choice(self.children()),
            "opt" => Node::Opt(Box::new(self.node())),
            "rep" => Node::Rep(Box::new(self.node())),
            "look" => {
                let p = self.next() == "1";
                Node::Look(p, Box::new(self.node()))
            }
            "atomic" => {
                let k = self.next().parse().unwrap();
                Node::Atomic(k, Box::new(self.node()))
            }
            "rule" => {
                let r = self.next().parse().unwrap();
                Node::Rule(r, Box::new(self.node()))
            }
            "push" => Node::Push(Box::new(self.node())),
            "push_lit" => Node::PushLit(unhex(self.next())),
            "restore_on_err" => Node::RestoreOnErr(Box::new(self.node())),
            "pop" => Node::Pop,
            "peek" => Node::Peek,
            "drop" => Node::Drop,
            "match_peek" => Node::MatchPeek,
            "match_pop" => Node::MatchPop,
            "peek_slice" => {
                let a = self.next().parse().unwrap();
                let b = self.next();
                let b = if b == "-" { None } else { Some(b.parse().unwrap()) };
                let d = self.next() == "1";
                Node::PeekSlice(a, b, d)
            }
            "tag" => {
                let t = unhex(self.next());
                Node::Tag(t, Box::new(self.node()))
            }
            h => panic!("unknown node {h}"),
        };
        assert_eq!(self.next(), ")");
        n
    }
}

fn class(name: &str, c: char) -> bool {
    match name {
        "any" => true,
        "digit" => c.is_ascii_digit(),
        "alpha" => c.is_ascii_alphabetic(),
        "upper" => c.is_ascii_uppercase(),
        "hex" => c.is_ascii_hexdigit(),
        "ascii" => c.is_ascii(),
        "LETTER" => pest::unicode::LETTER(c),
        _ => panic!("class {name}"),
    }
}

type St<'i> = Box<ParserState<'i, u8>>;

pub fn run<'i>(n: &'i Node, s: St<'i>) -> ParseResult<St<'i>> {
    match n {
        Node::Str(x) => s.match_string(x),
        Node::Insens(x) => s.match_insensitive(x),
        Node::Range(a, b) => s.match_range(*a..*b),
        Node::CharBy(k) => s.match_char_by(|c| class(k, c)),
        Node::Skip(k) => s.skip(*k),
        Node::SkipUntil(v) => {
            let r: Vec<&str> = v.iter().map(|x| x.as_str()).collect();
            s.skip_until(&r)
        }
        Node::Soi => s.start_of_input(),
        Node::Eoi => s.end_of_input(),
        Node::Seq(cs) => s.sequence(|s| chain(cs, s)),
        Node::Chain(cs) => chain(cs, s),
        Node::Choice(cs) => {
            let mut r = run(&cs[0], s);
            for c in &cs[1..] {
                r = r.or_else(|s| run(c, s));
            }
            r
        }
        Node::Opt(c) => s.optional(|s| run(c, s)),
        Node::Rep(c) => s.repeat(|s| run(c, s)),
        Node::Look(p, c) => s.lookahead(*p, |s| run(c, s)),
        Node::Atomic(k, c) => {
            let a = match k {
                0 => Atomicity::Atomic,
                1 => Atomicity::CompoundAtomic,
                _ => Atomicity::NonAtomic,
            };
            s.atomic(a, |s| run(c, s))
        }
        Node::Rule(r, c) => s.rule(*r, |s| run(c, s)),
        Node::Push(c) => s.stack_push(|s| run(c, s)),
        Node::PushLit(x) => s.stack_push_literal(x.clone()),
        Node::RestoreOnErr(c) => s.restore_on_err(|s| run(c, s)),
        Node::Pop => s.stack_pop(),
        Node::Peek => s.stack_peek(),
        Node::Drop => s.stack_drop(),
        Node::MatchPeek => s.stack_match_peek(),
        Node::MatchPop => s.stack_match_pop(),
        Node::PeekSlice(a, b, d) => s.stack_match_peek_slice(*a, *b, if *d { MatchDir::TopToBottom } else { MatchDir::BottomToTop }),
        Node::Tag(t, c) => run(c, s).and_then(|s| s.tag_node(t)),
    }
}

fn chain<'i>(cs: &'i [Node], s: St<'i>) -> ParseResult<St<'i>> {
    let mut r = run(&cs[0], s);
    for c in &cs[1..] {
        r = r.and_then(|s| run(c, s));
    }
    r
}

pub fn hex(s: &str) -> String {
    if s.is_empty() {
        return "-".into();
    }
    s.bytes().map(|b| format!("{b:02x}")).collect()
}

#[cfg(pest_parser_pest_verif)]
fn observe(s: &ParserState<'_, u8>) -> String {
    let o = s.verif_observe();
    let q: Vec<String> = o
        .queue
        .iter()
        .map(|(st, pos, idx, rule, tag)| {
            if *st {
                format!("S{idx}@{pos}")
            } else {
                format!("E{idx}r{}t{}@{pos}", rule.unwrap(), tag.as_ref().map(|t| hex(t)).unwrap_or("-".into()))
            }
        })
        .collect();
    let st: Vec<String> = o.stack.iter().map(|x| hex(x)).collect();
    let l = |v: &Vec<u8>| v.iter().map(|x| x.to_string()).collect::<Vec<_>>().join(",");
    format!(
        "pos={};q={};stack={};snaps={};la={};at={};apos={};pa={};na={};calls={};dmax={};dcs={}",
        o.pos,
        q.join(","),
        st.join(","),
        o.stack_snapshots,
        o.lookahead,
        o.atomicity,
        o.attempt_pos,
        l(&o.pos_attempts),
        l(&o.neg_attempts),
        o.calls.map(|(a, b)| format!("{a}/{b}")).unwrap_or("-".into()),
        if o.detail_enabled { o.detail_max_position.to_string() } else { "-".into() },
        if o.detail_enabled { o.detail_call_stacks.to_string() } else { "-".into() },
    )
}
#[cfg(not(pest_parser_pest_verif))]
fn observe(_s: &ParserState<'_, u8>) -> String {
    "NOHOOK".into()
}

fn via_state(tree: &Node, input: &str) -> String {
    use pest::error::{ErrorVariant, InputLocation, LineColLocation};
    match pest::state(input, |s| run(tree, s)) {
        Ok(pairs) => {
            let toks: Vec<String> = pairs
                .tokens()
                .map(|t| match t {
                    pest::Token::Start { rule, pos } => format!("S{rule}@{}", pos.pos()),
                    pest::Token::End { rule, pos } => format!("E{rule}@{}", pos.pos()),
                })
                .collect();
            format!("OK {}", toks.join(","))
        }
        Err(e) => {
            let loc = match e.location {
                InputLocation::Pos(p) => format!("{p}"),
                InputLocation::Span((a, b)) => format!("{a}-{b}"),
            };
            let lc = match e.line_col {
                LineColLocation::Pos((l, c)) => format!("{l}:{c}"),
                LineColLocation::Span((l, c), (l2, c2)) => format!("{l}:{c}-{l2}:{c2}"),
            };
            let l = |v: &Vec<u8>| v.iter().map(|x| x.to_string()).collect::<Vec<_>>().join(",");
            let var = match &e.variant {
                ErrorVariant::ParsingError { positives, negatives } => format!("P[{}]N[{}]", l(positives), l(negatives)),
                ErrorVariant::CustomError { message } => format!("C[{}]", message),
            };
            let rendered = guarded(std::panic::AssertUnwindSafe(|| format!("{e}"))).map(|s| s.len().to_string()).unwrap_or_else(|m| format!("RENDER-PANIC {m}"));
            let att = match e.parse_attempts() {
                Some(a) => format!("max={}", a.max_position),
                None => "-".into(),
            };
            format!("ERR at={loc} lc={lc} {var} line={} rendered={rendered} attempts={att}", hex(e.line()))
        }
    }
}

/// request: `<detail 0|1> <limit> <input-hex> <sexpr>`; reply `raw=<OK|ERR> <obs> ## state=<...>` or PANIC
pub fn request(line: &str) -> String {
    let mut it = line.splitn(4, ' ');
    let detail = it.next().unwrap() == "1";
    let limit: usize = it.next().unwrap().parse().unwrap();
    let input = unhex(it.next().unwrap());
    let tree = Rd::new(it.next().unwrap()).node();
    pest::set_error_detail(detail);
    pest::set_call_limit(std::num::NonZeroUsize::new(limit));
    let (t2, i2) = (tree.clone(), input.clone());
    let raw = guarded(move || {
        let s: St<'_> = ParserState::new(&i2);
        match run(&t2, s) {
            Ok(s) => format!("OK {}", observe(&s)),
            Err(s) => format!("ERR {}", observe(&s)),
        }
    })
    .unwrap_or_else(|m| format!("PANIC {}", m.replace('\n', " ")));
    let st = guarded(move || via_state(&tree, &input)).unwrap_or_else(|m| format!("PANIC {}", m.replace('\n', " ")));
    format!("raw={raw} ## state={st}")
}
