//! C03(a) — the matching primitives advance over exactly the matched text, to a UTF-8 boundary, and do not move on
//! failure. Driven through the public ParserState API; compiled twice (pest with and without the memchr feature).
use crate::util::*;
use pest::ParserState;

type R = u8;

fn is_prefix(h: &[u8], at: usize, n: &[u8]) -> bool {
    if at + n.len() > h.len() {
        return false;
    }
    let mut i = 0;
    while i < n.len() {
        if h[at + i] != n[i] {
            return false;
        }
        i += 1;
    }
    true
}

fn lower(b: u8) -> u8 {
    if b >= b'A' && b <= b'Z' { b + 32 } else { b }
}

fn is_prefix_insens(h: &[u8], at: usize, n: &[u8]) -> bool {
    if at + n.len() > h.len() {
        return false;
    }
    let mut i = 0;
    while i < n.len() {
        if lower(h[at + i]) != lower(n[i]) {
            return false;
        }
        i += 1;
    }
    true
}

/// position after optionally skipping k chars first (to start matching from an arbitrary boundary)
fn start<'a>(s: &'a str, k: usize) -> Option<Box<ParserState<'a, R>>> {
    let st: Box<ParserState<'a, R>> = ParserState::new(s);
    st.skip(k).ok()
}

fn match_string<const N: usize, const M: usize>() {
    let mut b = [0u8; N];
    let s = sym_str::<N>(&mut b);
    let mut nb = [0u8; M];
    let n = sym_str::<M>(&mut nb);
    let st: Box<ParserState<'_, R>> = ParserState::new(s);
    let want = is_prefix(s.as_bytes(), 0, n.as_bytes());
    match st.match_string(n) {
        Ok(st) => {
            assert!(want);
            assert!(st.position().pos() == n.len());
            assert!(boundary(s.as_bytes(), st.position().pos()));
            core::mem::forget(st);
        }
        Err(st) => {
            assert!(!want);
            assert!(st.position().pos() == 0);
            core::mem::forget(st);
        }
    }
    kani::cover!(want && n.len() == 2);
}

fn match_insensitive<const N: usize, const M: usize>() {
    let mut b = [0u8; N];
    let s = sym_str::<N>(&mut b);
    let mut nb = [0u8; M];
    let n = sym_str::<M>(&mut nb);
    let st: Box<ParserState<'_, R>> = ParserState::new(s);
    let want = is_prefix_insens(s.as_bytes(), 0, n.as_bytes());
    match st.match_insensitive(n) {
        Ok(st) => {
            assert!(want);
            assert!(st.position().pos() == n.len());
            assert!(boundary(s.as_bytes(), n.len()));
            core::mem::forget(st);
        }
        Err(st) => {
            assert!(!want);
            assert!(st.position().pos() == 0);
            core::mem::forget(st);
        }
    }
    kani::cover!(want && n.len() == 2);
}

fn first_char(s: &str) -> Option<char> {
    s.chars().next()
}

fn match_range<const N: usize>() {
    let mut b = [0u8; N];
    let s = sym_str::<N>(&mut b);
    let lo: char = kani::any();
    let hi: char = kani::any();
    let st: Box<ParserState<'_, R>> = ParserState::new(s);
    let c = first_char(s);
    let want = match c { Some(c) => lo <= c && c <= hi, None => false };
    match st.match_range(lo..hi) {
        Ok(st) => {
            assert!(want);
            assert!(st.position().pos() == c.unwrap().len_utf8());
            core::mem::forget(st);
        }
        Err(st) => {
            assert!(!want);
            assert!(st.position().pos() == 0);
            core::mem::forget(st);
        }
    }
    kani::cover!(want && c.unwrap().len_utf8() == 3);
}

fn skip<const N: usize>() {
    let mut b = [0u8; N];
    let s = sym_str::<N>(&mut b);
    let k: usize = kani::any();
    kani::assume(k <= N + 1);
    let by = s.as_bytes();
    // reference: offset after k chars, if there are that many
    let mut off = 0usize;
    let mut cnt = 0usize;
    while cnt < k && off < by.len() {
        off += 1;
        while off < by.len() && (by[off] & 0xC0) == 0x80 {
            off += 1;
        }
        cnt += 1;
    }
    let want = cnt == k;
    let st: Box<ParserState<'_, R>> = ParserState::new(s);
    match st.skip(k) {
        Ok(st) => {
            assert!(want);
            assert!(st.position().pos() == off);
            core::mem::forget(st);
        }
        Err(st) => {
            assert!(!want);
            assert!(st.position().pos() == 0);
            core::mem::forget(st);
        }
    }
    kani::cover!(want && k == 2 && off == 3);
}

/// reference for skip_until: first offset (a char boundary) at which one of the needles is a prefix, else the end
fn ref_until(h: &[u8], needles: &[&[u8]]) -> usize {
    let mut from = 0;
    while from < h.len() {
        if boundary(h, from) {
            let mut j = 0;
            while j < needles.len() {
                if is_prefix(h, from, needles[j]) {
                    return from;
                }
                j += 1;
            }
        }
        from += 1;
    }
    h.len()
}

fn skip_until_1<const N: usize, const M: usize>() {
    let mut b = [0u8; N];
    let s = sym_str::<N>(&mut b);
    let mut nb = [0u8; M];
    let n = sym_str::<M>(&mut nb);
    let st: Box<ParserState<'_, R>> = ParserState::new(s);
    let st = st.skip_until(&[n]).unwrap();
    let want = ref_until(s.as_bytes(), &[n.as_bytes()]);
    assert!(st.position().pos() == want);
    kani::cover!(want == 2 && n.len() == 2);
    core::mem::forget(st);
}

/// concrete needles (the memchr-accelerated memmem::find explodes under CBMC with a symbolic needle)
fn skip_until_fixed<const N: usize>() {
    let mut b = [0u8; N];
    let s = sym_str::<N>(&mut b);
    let st: Box<ParserState<'_, R>> = ParserState::new(s);
    let st = st.skip_until(&["ab"]).unwrap();
    let want = ref_until(s.as_bytes(), &[b"ab"]);
    assert!(st.position().pos() == want);
    kani::cover!(want == 1 && s.len() == 4);
    core::mem::forget(st);
}

fn skip_until_2<const N: usize, const M: usize>() {
    let mut b = [0u8; N];
    let s = sym_str::<N>(&mut b);
    let mut nb = [0u8; M];
    let n1 = sym_str::<M>(&mut nb);
    let mut nb2 = [0u8; M];
    let n2 = sym_str::<M>(&mut nb2);
    let st: Box<ParserState<'_, R>> = ParserState::new(s);
    let st = st.skip_until(&[n1, n2]).unwrap();
    let want = ref_until(s.as_bytes(), &[n1.as_bytes(), n2.as_bytes()]);
    assert!(st.position().pos() == want);
    kani::cover!(want == 1);
    core::mem::forget(st);
}

fn ends<const N: usize>() {
    let mut b = [0u8; N];
    let s = sym_str::<N>(&mut b);
    let st: Box<ParserState<'_, R>> = ParserState::new(s);
    let st = st.start_of_input().unwrap();
    match st.end_of_input() {
        Ok(st) => { assert!(s.len() == 0); core::mem::forget(st); }
        Err(st) => { assert!(s.len() != 0); assert!(st.position().pos() == 0); core::mem::forget(st); }
    }
}

macro_rules! h {
    ($name:ident, $u:literal, $body:expr) => {
        #[kani::proof]
        #[kani::unwind($u)]
        fn $name() { $body }
    };
}
h!(c03_match_string_3_2, 6, match_string::<3, 2>());
h!(c03_match_string_4_2, 7, match_string::<4, 2>());
h!(c03_match_insensitive_3_2, 6, match_insensitive::<3, 2>());
h!(c03_match_insensitive_4_3, 7, match_insensitive::<4, 3>());
h!(c03_match_range_4, 7, match_range::<4>());
h!(c03_skip_3, 6, skip::<3>());
h!(c03_skip_4, 7, skip::<4>());
h!(c03_skip_until_1_3_2, 6, skip_until_1::<3, 2>());
h!(c03_skip_until_1_4_2, 7, skip_until_1::<4, 2>());
h!(c03_skip_until_2_3_1, 6, skip_until_2::<3, 1>());
h!(c03_skip_until_2_4_2, 7, skip_until_2::<4, 2>());
h!(c03_ends_3, 6, ends::<3>());
h!(c03_skip_until_fixed_4, 7, skip_until_fixed::<4>());
h!(c03_skip_until_fixed_6, 9, skip_until_fixed::<6>());
