//! Kani proof harnesses (engine K of /verif/DESIGN.md). Compiled against /repo's working tree.
#![allow(dead_code, unused_imports, non_snake_case, unused_mut)]
#[cfg(kani)]
mod util;
#[cfg(kani)]
mod c16;
#[cfg(kani)]
mod gen_c16;
#[cfg(kani)]
mod c10;
#[cfg(kani)]
mod c03;
