//! helpers shared by the harnesses

/// an arbitrary valid UTF-8 string of at most N bytes (every such string, not only ASCII)
pub fn sym_str<const N: usize>(buf: &mut [u8; N]) -> &str {
    *buf = kani::any();
    let len: usize = kani::any();
    kani::assume(len <= N);
    match core::str::from_utf8(&buf[..len]) {
        Ok(s) => s,
        Err(_) => {
            kani::assume(false);
            unreachable!()
        }
    }
}

/// reference: is `i` a char boundary of `b` (b valid UTF-8)
pub fn boundary(b: &[u8], i: usize) -> bool {
    i == b.len() || (i < b.len() && (b[i] & 0xC0) != 0x80)
}
