//! C10 — line/column arithmetic, Position / Span construction, lines_span, merge_spans (allocation-free part)
use crate::util::*;
use core::ops::Bound;
use pest::{Position, Span};

/// reference line/col: line = 1 + '\n's before pos, col = 1 + chars since the last '\n'
fn ref_line_col(b: &[u8], pos: usize) -> (usize, usize) {
    let (mut line, mut col) = (1usize, 1usize);
    let mut i = 0;
    while i < pos {
        if b[i] == b'\n' {
            line += 1;
            col = 1;
        } else if (b[i] & 0xC0) != 0x80 {
            col += 1;
        }
        i += 1;
    }
    (line, col)
}

/// reference line bounds: [start, end) of the '\n'-terminated line containing offset pos
fn ref_line_bounds(b: &[u8], pos: usize) -> (usize, usize) {
    let mut s = pos;
    while s > 0 && b[s - 1] != b'\n' {
        s -= 1;
    }
    let mut e = pos;
    while e < b.len() && b[e] != b'\n' {
        e += 1;
    }
    if e < b.len() {
        e += 1;
    }
    (s, e)
}

fn position_new<const N: usize>() {
    let mut buf = [0u8; N];
    let s = sym_str::<N>(&mut buf);
    let pos: usize = kani::any();
    let p = Position::new(s, pos);
    let expect = pos <= s.len() && boundary(s.as_bytes(), pos);
    assert!(p.is_some() == expect);
    if let Some(p) = p {
        assert!(p.pos() == pos);
    }
    kani::cover!(expect && pos > 0);
    kani::cover!(!expect && pos < s.len());
}

fn line_col<const N: usize>() {
    let mut buf = [0u8; N];
    let s = sym_str::<N>(&mut buf);
    let pos: usize = kani::any();
    if let Some(p) = Position::new(s, pos) {
        let got = p.line_col();
        let want = ref_line_col(s.as_bytes(), pos);
        assert!(got.0 == want.0);
        assert!(got.1 == want.1);
        kani::cover!(got.0 == 2 && got.1 == 2);
    }
}

fn line_of<const N: usize>() {
    let mut buf = [0u8; N];
    let s = sym_str::<N>(&mut buf);
    let pos: usize = kani::any();
    if let Some(p) = Position::new(s, pos) {
        let l = p.line_of();
        let (ws, we) = ref_line_bounds(s.as_bytes(), pos);
        let gs = l.as_ptr() as usize - s.as_ptr() as usize;
        assert!(gs == ws);
        assert!(l.len() == we - ws);
        kani::cover!(ws > 0 && we < s.len());
    }
}

fn span_new<const N: usize>() {
    let mut buf = [0u8; N];
    let s = sym_str::<N>(&mut buf);
    let a: usize = kani::any();
    let b: usize = kani::any();
    let sp = Span::new(s, a, b);
    let by = s.as_bytes();
    let expect = a <= b && b <= s.len() && boundary(by, a) && boundary(by, b);
    assert!(sp.is_some() == expect);
    if let Some(sp) = sp {
        assert!(sp.start() == a && sp.end() == b);
        assert!(sp.as_str().len() == b - a);
        assert!(sp.start_pos().pos() == a && sp.end_pos().pos() == b);
        let (p, q) = sp.split();
        assert!(p.pos() == a && q.pos() == b);
    }
    kani::cover!(expect && a < b);
}

fn any_bound(which: u8, v: usize) -> Bound<usize> {
    match which {
        0 => Bound::Included(v),
        1 => Bound::Excluded(v),
        _ => Bound::Unbounded,
    }
}

/// Span::get with every RangeBounds form (both bounds any of Included/Excluded/Unbounded, any offsets):
/// Some exactly when the denoted sub-range consists of ordered char-boundary offsets inside the span, never a panic.
fn span_get<const N: usize>() {
    let mut buf = [0u8; N];
    let s = sym_str::<N>(&mut buf);
    let a: usize = kani::any();
    let b: usize = kani::any();
    if let Some(sp) = Span::new(s, a, b) {
        let ws: u8 = kani::any();
        let we: u8 = kani::any();
        kani::assume(ws < 3 && we < 3);
        let x: usize = kani::any();
        let y: usize = kani::any();
        let got = sp.get((any_bound(ws, x), any_bound(we, y)));
        // mathematical meaning of the range, in u128 so that +1 cannot wrap
        let lo: u128 = match ws { 0 => x as u128, 1 => x as u128 + 1, _ => 0 };
        let hi: u128 = match we { 0 => y as u128 + 1, 1 => y as u128, _ => (b - a) as u128 };
        let by = s.as_bytes();
        let expect = lo <= hi && hi <= (b - a) as u128
            && boundary(by, a + lo as usize) && boundary(by, a + hi as usize);
        assert!(got.is_some() == expect);
        if let Some(g) = got {
            assert!(g.start() == a + lo as usize);
            assert!(g.end() == a + hi as usize);
        }
        kani::cover!(expect && lo < hi);
    }
}

/// lines_span(): consecutive, each a full '\n'-terminated line of the input, first one contains start, and the set is
/// exactly the non-empty input lines [ls,le) with ls <= end and le > start (closed-interval reading of "overlap",
/// see DESIGN.md C10).
fn lines_span<const N: usize>() {
    let mut buf = [0u8; N];
    let s = sym_str::<N>(&mut buf);
    let a: usize = kani::any();
    let b: usize = kani::any();
    if let Some(sp) = Span::new(s, a, b) {
        let by = s.as_bytes();
        let mut it = sp.lines_span();
        // reference: walk the lines of the input
        let mut ls = 0usize;
        let mut produced = 0usize;
        while ls < by.len() {
            let (_, le) = ref_line_bounds(by, ls);
            if ls <= b && le > a {
                let g = it.next();
                assert!(g.is_some());
                let g = g.unwrap();
                assert!(g.start() == ls);
                assert!(g.end() == le);
                produced += 1;
            }
            ls = le;
        }
        assert!(it.next().is_none());
        kani::cover!(produced == 2);
        kani::cover!(produced == 0);
    }
}

fn merge<const N: usize>() {
    let mut buf = [0u8; N];
    let s = sym_str::<N>(&mut buf);
    let (a, b, c, d): (usize, usize, usize, usize) = kani::any();
    if let (Some(x), Some(y)) = (Span::new(s, a, b), Span::new(s, c, d)) {
        let m = pest::merge_spans(&x, &y);
        let expect = b >= c && a <= d;
        assert!(m.is_some() == expect);
        if let Some(m) = m {
            assert!(m.start() == if a < c { a } else { c });
            assert!(m.end() == if b > d { b } else { d });
        }
        kani::cover!(expect && a < c && b < d);
    }
}

macro_rules! inst {
    ($n:literal, $u:literal, $($name:ident => $f:ident),*) => { $(
        #[kani::proof]
        #[kani::unwind($u)]
        fn $name() { $f::<$n>() }
    )* };
}
inst!(3, 6, c10_position_new_3 => position_new, c10_line_col_3 => line_col, c10_line_of_3 => line_of, c10_span_new_3 => span_new,
      c10_span_get_3 => span_get, c10_lines_span_3 => lines_span, c10_merge_3 => merge);
inst!(4, 7, c10_position_new_4 => position_new, c10_line_col_4 => line_col, c10_line_of_4 => line_of, c10_span_new_4 => span_new,
      c10_span_get_4 => span_get, c10_lines_span_4 => lines_span, c10_merge_4 => merge);
inst!(6, 9, c10_position_new_6 => position_new, c10_line_col_6 => line_col, c10_line_of_6 => line_of, c10_span_new_6 => span_new,
      c10_span_get_6 => span_get, c10_lines_span_6 => lines_span, c10_merge_6 => merge);
