use pest::unicode::*;

fn cats(c: char) -> [bool; 30] {
    [
        UPPERCASE_LETTER(c), LOWERCASE_LETTER(c), TITLECASE_LETTER(c), MODIFIER_LETTER(c), OTHER_LETTER(c),
        NONSPACING_MARK(c), SPACING_MARK(c), ENCLOSING_MARK(c),
        DECIMAL_NUMBER(c), LETTER_NUMBER(c), OTHER_NUMBER(c),
        CONNECTOR_PUNCTUATION(c), DASH_PUNCTUATION(c), OPEN_PUNCTUATION(c), CLOSE_PUNCTUATION(c),
        INITIAL_PUNCTUATION(c), FINAL_PUNCTUATION(c), OTHER_PUNCTUATION(c),
        MATH_SYMBOL(c), CURRENCY_SYMBOL(c), MODIFIER_SYMBOL(c), OTHER_SYMBOL(c),
        SPACE_SEPARATOR(c), LINE_SEPARATOR(c), PARAGRAPH_SEPARATOR(c),
        CONTROL(c), FORMAT(c), SURROGATE(c), PRIVATE_USE(c), UNASSIGNED(c),
    ]
}

#[kani::proof]
#[kani::unwind(31)]
fn c16_exactly_one_category() {
    let c: char = kani::any();
    let k = cats(c);
    let mut n = 0u32;
    let mut i = 0;
    while i < 30 { if k[i] { n += 1; } i += 1; }
    assert!(n == 1);
    kani::cover!(k[0]);
    kani::cover!(k[29]);
}

#[kani::proof]
fn c16_groups_are_unions() {
    let c: char = kani::any();
    assert!(LETTER(c) == (UPPERCASE_LETTER(c) || LOWERCASE_LETTER(c) || TITLECASE_LETTER(c) || MODIFIER_LETTER(c) || OTHER_LETTER(c)));
    assert!(CASED_LETTER(c) == (UPPERCASE_LETTER(c) || LOWERCASE_LETTER(c) || TITLECASE_LETTER(c)));
    assert!(MARK(c) == (NONSPACING_MARK(c) || SPACING_MARK(c) || ENCLOSING_MARK(c)));
    assert!(NUMBER(c) == (DECIMAL_NUMBER(c) || LETTER_NUMBER(c) || OTHER_NUMBER(c)));
    assert!(PUNCTUATION(c) == (CONNECTOR_PUNCTUATION(c) || DASH_PUNCTUATION(c) || OPEN_PUNCTUATION(c) || CLOSE_PUNCTUATION(c)
        || INITIAL_PUNCTUATION(c) || FINAL_PUNCTUATION(c) || OTHER_PUNCTUATION(c)));
    assert!(SYMBOL(c) == (MATH_SYMBOL(c) || CURRENCY_SYMBOL(c) || MODIFIER_SYMBOL(c) || OTHER_SYMBOL(c)));
    assert!(SEPARATOR(c) == (SPACE_SEPARATOR(c) || LINE_SEPARATOR(c) || PARAGRAPH_SEPARATOR(c)));
    assert!(OTHER(c) == (CONTROL(c) || FORMAT(c) || SURROGATE(c) || PRIVATE_USE(c) || UNASSIGNED(c)));
    kani::cover!(LETTER(c));
    kani::cover!(OTHER(c));
}
