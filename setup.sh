#!/bin/sh
# Run once after a fresh restore, offline. Everything is rebuilt by ./check itself from /repo's working tree;
# this only makes sure the work directory exists and the tools are there.
set -e
cd "$(dirname "$0")"
mkdir -p .work evidence replays
export CARGO_NET_OFFLINE=true
command -v python3-vt >/dev/null
python3-vt -c "import z3, jsonschema"
cargo kani --version >/dev/null
echo "setup ok"
