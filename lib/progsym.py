"""Combinator program trees: execution on the MIR of pest::ParserState (engine M), the reference reading of the
documented contracts (refstate), tree generation and the text form understood by verif-native."""
import random, z3
from mirsym.values import *
from mirsym.interp import Interp, _and, _or
from mirsym.summaries import S
from mirsym.summaries_str import decode_front, lower_eq, char_len_utf8

# ParserState field indices (declaration order in pest/src/parser_state.rs; checked at load time by check_layout)
F_POSITION, F_QUEUE, F_LOOKAHEAD, F_POS_ATT, F_NEG_ATT, F_ATT_POS, F_ATOMICITY, F_STACK, F_CALLS, F_ATTEMPTS = range(10)
PS_FIELDS = ["position", "queue", "lookahead", "pos_attempts", "neg_attempts", "attempt_pos", "atomicity", "stack", "call_tracker", "parse_attempts"]


def check_layout(repo):
    import re, os
    src = open(os.path.join(repo, "pest/src/parser_state.rs")).read()
    m = re.search(r"pub struct ParserState<'i, R: RuleType> \{(.*?)\n\}", src, re.S)
    names = re.findall(r"^\s*(?:pub(?:\([a-z]+\))? )?(\w+):", re.sub(r"//[^\n]*", "", m.group(1)), re.M)
    if names != PS_FIELDS:
        raise Unsupported(f"ParserState layout changed: {names}")


# --------------------------------------------------------------------------- text form
def hexs(b): return bytes(b).hex() if b else "-"


def sexpr(n):
    k = n[0]
    if k in ("str", "insens", "push_lit"): return f"({k} {hexs(n[1])})"
    if k == "range": return f"(range {n[1]:x} {n[2]:x})"
    if k == "charby": return f"(charby {n[1]})"
    if k == "skip": return f"(skip {n[1]})"
    if k == "skip_until": return "(skip_until " + " ".join(hexs(x) for x in n[1]) + ")"
    if k in ("soi", "eoi", "pop", "peek", "drop", "match_peek", "match_pop"): return f"({k})"
    if k in ("seq", "chain", "choice"): return f"({k} " + " ".join(sexpr(c) for c in n[1]) + ")"
    if k in ("opt", "rep", "push", "restore_on_err"): return f"({k} {sexpr(n[1])})"
    if k == "look": return f"(look {1 if n[1] else 0} {sexpr(n[2])})"
    if k == "atomic": return f"(atomic {n[1]} {sexpr(n[2])})"
    if k == "rule": return f"(rule {n[1]} {sexpr(n[2])})"
    if k == "peek_slice": return f"(peek_slice {n[1]} {'-' if n[2] is None else n[2]} {1 if n[3] else 0})"
    if k == "tag": return f"(tag {hexs(n[1])} {sexpr(n[2])})"
    raise ValueError(k)


# --------------------------------------------------------------------------- char classes
CLASSES = {
    "any": (lambda c: True, lambda c: True),
    "digit": (lambda c: z3.And(z3.UGE(c, 48), z3.ULE(c, 57)), lambda c: 48 <= c <= 57),
    "alpha": (lambda c: z3.Or(z3.And(z3.UGE(c, 65), z3.ULE(c, 90)), z3.And(z3.UGE(c, 97), z3.ULE(c, 122))), lambda c: 65 <= c <= 90 or 97 <= c <= 122),
    "upper": (lambda c: z3.And(z3.UGE(c, 65), z3.ULE(c, 90)), lambda c: 65 <= c <= 90),
    "hex": (lambda c: z3.Or(z3.And(z3.UGE(c, 48), z3.ULE(c, 57)), z3.And(z3.UGE(c, 65), z3.ULE(c, 70)), z3.And(z3.UGE(c, 97), z3.ULE(c, 102))),
            lambda c: 48 <= c <= 57 or 65 <= c <= 70 or 97 <= c <= 102),
    "ascii": (lambda c: z3.ULE(c, 127), lambda c: c <= 127),
}


def class_pred(name, c):
    s, k = CLASSES[name]
    return s(c) if is_sym(c) else k(c)


# --------------------------------------------------------------------------- execution on the MIR
def str_const(b):
    return SliceRef(VecObj(list(b), "static"), 0, len(b), True)


class ProgExec:
    """runs a tree through the real ParserState methods (their MIR); closure parameters are host closures"""

    def __init__(self, I, check_atomic=True):
        self.I = I
        self.violations = []     # all-or-nothing violations seen at sequence / lookahead nodes
        self.check_atomic = check_atomic

    def new_state(self, input_slice):
        return self.I.call("", "ParserState::new", [input_slice])

    def st(self, box): return self.I.deref(box)

    def snap(self, box):
        ps = self.st(box)
        return (ps.f[F_POSITION].f[1], queue_view(ps), stack_view(self.I, ps))

    def same(self, a, b):
        if a[0] != b[0] or a[1] != b[1] or len(a[2]) != len(b[2]): return False
        for x, y in zip(a[2], b[2]):
            if len(x) != len(y): return False
            for p, q in zip(x, y):
                if p is q: continue
                if not self.I.W.must(p == q if (is_sym(p) or is_sym(q)) else p == q): return False
        return True

    def cl(self, node):
        return PyClosure(lambda I, st: self.run(node, st), node[0])

    def call(self, name, args):
        return self.I.call("", "ParserState::" + name, args)

    def chain(self, cs, s):
        r = self.run(cs[0], s)
        for c in cs[1:]:
            if r.idx == 0: r = self.run(c, r.f[0])
        return r

    def run(self, n, s):
        k = n[0]; I = self.I
        if k == "str": return self.call("match_string", [s, str_const(n[1])])
        if k == "insens": return self.call("match_insensitive", [s, str_const(n[1])])
        if k == "range": return self.call("match_range", [s, Agg([n[1], n[2]], "Range")])
        if k == "charby":
            return self.call("match_char_by", [s, PyClosure(lambda I, c: class_pred(n[1], c), "class")])
        if k == "skip": return self.call("skip", [s, n[1]])
        if k == "skip_until":
            arr = Agg([str_const(x) for x in n[1]], "array")
            return self.call("skip_until", [s, SliceRef(arr, 0, len(arr.f))])
        if k == "soi": return self.call("start_of_input", [s])
        if k == "eoi": return self.call("end_of_input", [s])
        if k == "seq":
            before = self.snap(s) if self.check_atomic else None
            r = self.call("sequence", [s, PyClosure(lambda I, st: self.chain(n[1], st), "seq")])
            if self.check_atomic and r.idx == 1:
                after = self.snap(r.f[0])
                if not self.same(before, after):
                    notag = lambda sn: (sn[0], [t[:3] + t[4:] if t[0] == "E" else t for t in sn[1]], sn[2])
                    if self.same(notag(before), notag(after)):
                        # tag_node() inside the failed sequence tagged a pair that was complete before the sequence began
                        self.violations.append(("failed sequence left a node tag on an earlier pair", sexpr(n)))
                    else:
                        self.violations.append(("failed sequence changed position/tokens/stack", sexpr(n)))
            return r
        if k == "chain": return self.chain(n[1], s)
        if k == "choice":
            r = self.run(n[1][0], s)
            for c in n[1][1:]:
                if r.idx == 1: r = self.run(c, r.f[0])
            return r
        if k == "opt": return self.call("optional", [s, self.cl(n[1])])
        if k == "rep": return self.call("repeat", [s, self.cl(n[1])])
        if k == "look":
            before = self.snap(s) if self.check_atomic else None
            r = self.call("lookahead", [s, n[1], self.cl(n[2])])
            if self.check_atomic and not self.same(before, self.snap(r.f[0])):
                self.violations.append(("look-ahead changed position/tokens/stack", sexpr(n)))
            return r
        if k == "atomic":
            a = Enum("Atomicity", ["Atomic", "CompoundAtomic", "NonAtomic"][n[1]], n[1])
            return self.call("atomic", [s, a, self.cl(n[2])])
        if k == "rule": return self.call("rule", [s, n[1], self.cl(n[2])])
        if k == "push": return self.call("stack_push", [s, self.cl(n[1])])
        if k == "push_lit": return self.call("stack_push_literal", [s, VecObj(list(n[1]), "String")])
        if k == "restore_on_err": return self.call("restore_on_err", [s, self.cl(n[1])])
        if k == "pop": return self.call("stack_pop", [s])
        if k == "peek": return self.call("stack_peek", [s])
        if k == "drop": return self.call("stack_drop", [s])
        if k == "match_peek": return self.call("stack_match_peek", [s])
        if k == "match_pop": return self.call("stack_match_pop", [s])
        if k == "peek_slice":
            end = some(n[2] & 0xFFFFFFFF) if n[2] is not None else none()
            d = Enum("MatchDir", "TopToBottom", 1) if n[3] else Enum("MatchDir", "BottomToTop", 0)
            return self.call("stack_match_peek_slice", [s, n[1] & 0xFFFFFFFF, end, d])
        if k == "tag":
            r = self.run(n[2], s)
            if r.idx == 0: r = self.call("tag_node", [r.f[0], str_const(n[1])])
            return r
        raise ValueError(k)


def queue_view(ps):
    out = []
    for t in ps.f[F_QUEUE].f:
        if t.var == "Start": out.append(("S", t.f[0], t.f[1]))
        else:
            tag = t.f[2]
            tg = bytes(tag.f[0].items()) if tag.idx == 1 else None
            out.append(("E", t.f[0], t.f[1], tg, t.f[3]))
    return out


def stack_item_bytes(I, e):
    """SpanOrLiteral -> list of byte values"""
    if e.var == "Span":
        sp = e.f[0]; inp = sp.f[0]
        return inp.obj.f[inp.start + sp.f[1]: inp.start + sp.f[2]]
    b = e.f[0]
    if b.var == "Borrowed": return b.f[0].items()
    s = I.deref(b.f[0].f[0])
    return list(s.f)


def stack_view(I, ps):
    return [stack_item_bytes(I, e) for e in ps.f[F_STACK].f[0].f]


def observe(I, ps, m):
    """the string verif-native prints for the same state (symbolic bytes evaluated in model m)"""
    def evb(x): return m.eval(x, model_completion=True).as_long() if is_sym(x) else x
    q = []
    for t in queue_view(ps):
        if t[0] == "S": q.append(f"S{t[1]}@{t[2]}")
        else: q.append(f"E{t[1]}r{t[2]}t{t[3].hex() if t[3] else '-'}@{t[4]}")
    st = [(bytes(evb(x) for x in it).hex() or "-") for it in stack_view(I, ps)]
    ct = ps.f[F_CALLS].f[0]
    calls = f"{evb(ct.f[0].f[0])}/{evb(ct.f[0].f[1])}" if ct.idx == 1 else "-"
    pa = ps.f[F_ATTEMPTS]
    en = pa.f[0]
    l = lambda v: ",".join(str(x) for x in v.f)
    return (f"pos={ps.f[F_POSITION].f[1]};q={','.join(q)};stack={','.join(st)};snaps={len(ps.f[F_STACK].f[2].f)};"
            f"la={ps.f[F_LOOKAHEAD].idx};at={ps.f[F_ATOMICITY].idx};apos={ps.f[F_ATT_POS]};pa={l(ps.f[F_POS_ATT])};na={l(ps.f[F_NEG_ATT])};"
            f"calls={calls};dmax={pa.f[4] if en else '-'};dcs={len(pa.f[1].f) if en else '-'}")


# --------------------------------------------------------------------------- refstate: the documented contracts
class RefPanic(Exception):
    pass


class RefState:
    __slots__ = ("pos", "queue", "stack", "la", "at")

    def __init__(self):
        self.pos = 0; self.queue = []; self.stack = []; self.la = 2; self.at = 2    # la: 0 pos 1 neg 2 none ; at: 0 atomic 1 compound 2 non


class Ref:
    """direct executable reading of the documented ParserState contracts over the same symbolic input"""

    def __init__(self, W, inp):
        self.W, self.inp, self.n = W, inp, len(inp)
        self.dummyI = None

    def br(self, c): return self.W.branch(c)

    def decode(self, pos):
        class _I: pass
        i = _I(); i.W = self.W
        return decode_front(i, SliceRef(VecObj(self.inp), pos, self.n - pos, True))

    def boundary(self, pos):
        if pos == 0 or pos >= self.n: return pos <= self.n
        b = self.inp[pos]
        return self.br(z3.Or(z3.ULT(b, 0x80), z3.UGE(b, 0xC0))) if is_sym(b) else (b & 0xC0) != 0x80

    def match_at(self, pos, lit, insens=False):
        """do the bytes lit (values, possibly symbolic) occur at pos? (forks)"""
        if pos + len(lit) > self.n: return False
        c = True
        for i, x in enumerate(lit):
            y = self.inp[pos + i]
            if insens: c = _and(c, lower_eq(y, x))
            elif is_sym(x) or is_sym(y): c = _and(c, x == y)
            elif x != y: return False
        return self.br(c)

    def run(self, n, st):
        k = n[0]
        if k == "str" or k == "insens":
            if self.match_at(st.pos, n[1], k == "insens"):
                st.pos += len(n[1]); return True
            return False
        if k == "range" or k == "charby":
            if st.pos >= self.n: return False
            c, ln = self.decode(st.pos)
            if k == "range":
                cond = _and(_cmp_ule(n[1], c), _cmp_ule(c, n[2]))
            else:
                cond = class_pred(n[1], c)
            if self.br(cond):
                st.pos += ln; return True
            return False
        if k == "skip":
            p = st.pos
            for _ in range(n[1]):
                if p >= self.n: return False
                _, ln = self.decode(p); p += ln
            st.pos = p; return True
        if k == "skip_until":
            for frm in range(st.pos, self.n):
                if not self.boundary(frm): continue
                for nd in n[1]:
                    if self.match_at(frm, nd):
                        st.pos = frm; return True
            st.pos = self.n; return True
        if k == "soi": return st.pos == 0
        if k == "eoi": return st.pos == self.n
        if k == "seq":
            sv = (st.pos, len(st.queue), [list(x) for x in st.stack])
            okk = self.chain(n[1], st)
            if not okk:
                st.pos = sv[0]; del st.queue[sv[1]:]; st.stack = sv[2]
            return okk
        if k == "chain": return self.chain(n[1], st)
        if k == "choice":
            for c in n[1]:
                if self.run(c, st): return True
            return False
        if k == "opt":
            self.run(n[1], st); return True
        if k == "rep":
            guard = 0
            while self.run(n[1], st):
                guard += 1
                if guard > 4 * self.n + 16: raise StepLimit("reference: repeat does not terminate")
            return True
        if k == "look":
            sv = (st.pos, list(st.queue), [list(x) for x in st.stack], st.la)
            if n[1]: st.la = 0 if st.la in (2, 0) else 1
            else: st.la = 1 if st.la in (2, 0) else 0
            okk = self.run(n[2], st)
            st.pos, st.queue, st.stack, st.la = sv
            return okk if n[1] else not okk
        if k == "atomic":
            old = st.at; st.at = n[1]
            okk = self.run(n[2], st)
            st.at = old
            return okk
        if k == "rule":
            emit = st.la == 2 and st.at != 0
            idx = len(st.queue)
            if emit: st.queue.append(["S", 0, st.pos])
            okk = self.run(n[2], st)
            if emit:
                if okk:
                    st.queue[idx][1] = len(st.queue)
                    st.queue.append(["E", idx, n[1], None, st.pos])
                else:
                    del st.queue[idx:]
            return okk
        if k == "push":
            a = st.pos
            okk = self.run(n[1], st)
            if okk: st.stack.append(self.inp[a:st.pos])
            return okk
        if k == "push_lit":
            st.stack.append(list(n[1])); return True
        if k == "restore_on_err":
            sv = [list(x) for x in st.stack]
            okk = self.run(n[1], st)
            if not okk: st.stack = sv
            return okk
        if k == "pop":
            if not st.stack: raise RefPanic("pop was called on empty stack")
            x = st.stack.pop()
            if self.match_at(st.pos, x):
                st.pos += len(x); return True
            return False
        if k == "peek":
            if not st.stack: raise RefPanic("peek was called on empty stack")
            x = st.stack[-1]
            if self.match_at(st.pos, x):
                st.pos += len(x); return True
            return False
        if k == "drop":
            if not st.stack: return False
            st.stack.pop(); return True
        if k == "match_peek": return self.peek_slice(st, 0, None, True)
        if k == "match_pop":
            p = st.pos
            while st.stack:
                x = st.stack.pop()
                if not self.match_at(p, x): return False
                p += len(x)
            st.pos = p; return True
        if k == "peek_slice": return self.peek_slice(st, n[1], n[2], n[3])
        if k == "tag":
            okk = self.run(n[2], st)
            if okk and st.la == 2 and st.queue and st.queue[-1][0] == "E":
                st.queue[-1][3] = bytes(n[1])
            return okk
        raise ValueError(k)

    def chain(self, cs, st):
        for c in cs:
            if not self.run(c, st): return False
        return True

    def peek_slice(self, st, start, end, top_to_bottom):
        ln = len(st.stack)
        def norm(i):
            if i > ln: return None
            if i >= 0: return i
            return ln + i if ln + i >= 0 else None
        a = norm(start)
        b = ln if end is None else norm(end)
        if a is None or b is None: return False
        if b <= a: return True
        items = st.stack[a:b]
        if top_to_bottom: items = list(reversed(items))
        p = st.pos
        for x in items:
            if not self.match_at(p, x): return False
            p += len(x)
        st.pos = p; return True


def _cmp_ule(a, b):
    if is_sym(a) or is_sym(b): return z3.ULE(a, b)
    return a <= b


# --------------------------------------------------------------------------- UTF-8 constraint on symbolic input
def utf8_constraints(bs):
    """z3 constraint: the byte list is well-formed UTF-8 (Unicode scalar values, shortest form)."""
    n = len(bs)
    if n == 0: return []
    # ok[i] = bytes i.. form valid UTF-8 ; built backwards
    ok = [None] * (n + 1)
    ok[n] = z3.BoolVal(True)
    def cont(b): return z3.And(z3.UGE(b, 0x80), z3.ULE(b, 0xBF))
    for i in range(n - 1, -1, -1):
        b0 = bs[i]
        alts = [z3.And(z3.ULT(b0, 0x80), ok[i + 1])]
        if i + 1 < n:
            alts.append(z3.And(z3.UGE(b0, 0xC2), z3.ULE(b0, 0xDF), cont(bs[i + 1]), ok[i + 2]))
        if i + 2 < n:
            b1, b2 = bs[i + 1], bs[i + 2]
            alts.append(z3.And(b0 == 0xE0, z3.UGE(b1, 0xA0), z3.ULE(b1, 0xBF), cont(b2), ok[i + 3]))
            alts.append(z3.And(z3.Or(z3.And(z3.UGE(b0, 0xE1), z3.ULE(b0, 0xEC)), b0 == 0xEE, b0 == 0xEF), cont(b1), cont(b2), ok[i + 3]))
            alts.append(z3.And(b0 == 0xED, z3.UGE(b1, 0x80), z3.ULE(b1, 0x9F), cont(b2), ok[i + 3]))
        if i + 3 < n:
            b1, b2, b3 = bs[i + 1], bs[i + 2], bs[i + 3]
            alts.append(z3.And(b0 == 0xF0, z3.UGE(b1, 0x90), z3.ULE(b1, 0xBF), cont(b2), cont(b3), ok[i + 4]))
            alts.append(z3.And(z3.UGE(b0, 0xF1), z3.ULE(b0, 0xF3), cont(b1), cont(b2), cont(b3), ok[i + 4]))
            alts.append(z3.And(b0 == 0xF4, z3.UGE(b1, 0x80), z3.ULE(b1, 0x8F), cont(b2), cont(b3), ok[i + 4]))
        ok[i] = z3.Or(*alts)
    return [ok[0]]


# --------------------------------------------------------------------------- generation of program trees
LITS = [b"a", b"b", b"ab", b"", "é".encode(), b"A"]


def nullable(n):
    """may the node succeed without consuming input? (conservative: True when unsure)"""
    k = n[0]
    if k == "str" or k == "insens" or k == "push_lit": return len(n[1]) == 0 or k == "push_lit"
    if k in ("range", "charby"): return False
    if k == "skip": return n[1] == 0
    if k in ("skip_until", "soi", "eoi", "opt", "rep", "look", "pop", "peek", "drop", "match_peek", "match_pop", "peek_slice"): return True
    if k in ("seq", "chain"): return all(nullable(c) for c in n[1])
    if k == "choice": return any(nullable(c) for c in n[1])
    if k in ("atomic", "rule", "tag"): return nullable(n[2])
    if k in ("push", "restore_on_err"): return nullable(n[1])
    return True


def leaves(rng=None):
    L = [("str", l) for l in LITS] + [("insens", b"a"), ("insens", b"Ab"), ("insens", b"-"), ("insens", b"a_1"), ("insens", b"[x]@"), ("range", 0x61, 0x63), ("range", 0x80, 0x7FF),
                                      ("charby", "any"), ("charby", "digit"), ("charby", "alpha"), ("skip", 1), ("skip", 2),
                                      ("skip_until", [b"a"]), ("skip_until", [b"ab", b"b"]), ("skip_until", [b"a", b"b", b"c"]),
                                      ("skip_until", [b"a", b"b", b"c", b"d"]), ("skip_until", []), ("skip_until", [b"ab", b"ac"]), ("skip_until", [b"ac", b"ab"]), ("skip_until", ["é".encode(), "ü".encode()]), ("skip_until", [b"ab", b"ac", b"aa"]), ("skip_until", [b"a", b"ab"]),
                                      ("skip_until", [b"ba", b"a", b"bb"]), ("skip_until", [b"a", b"b", b""]), ("skip_until", [b"", b"a"]), ("skip_until", [b""]), ("skip_until", ["é".encode(), b"b"]), ("soi",), ("eoi",),
                                      ("push_lit", b"a"), ("drop",), ("match_peek",), ("match_pop",), ("peek_slice", 0, None, False),
                                      ("peek_slice", -1, None, True), ("peek_slice", 0, 1, True), ("peek_slice", 1, -1, False), ("peek_slice", 5, None, True)]
    return L


def wrap1(c, rid=[1]):
    out = [("opt", c), ("look", True, c), ("look", False, c), ("atomic", 0, c), ("atomic", 1, c), ("atomic", 2, c),
           ("rule", 1, c), ("rule", 2, c), ("push", c), ("restore_on_err", c), ("tag", b"t", c), ("seq", [c])]
    if not nullable(c): out.append(("rep", c))
    return out


def gen_trees(seed, count, maxdepth):
    """deterministic family: every leaf, the stack-oriented shapes, a seeded slice of the single wraps of leaves and of the
    leaf pairs, and (about half of the budget) seeded random trees up to maxdepth that nest counted calls inside
    repeat / optional / look-ahead."""
    rng = random.Random(seed)
    L = leaves()
    d1 = []
    for c in L: d1 += wrap1(c)
    rng.shuffle(d1)
    pairs = [("seq", [a, b]) for a in L for b in L]
    rng.shuffle(pairs)
    stackish = [("seq", [("push", ("str", b"a")), x]) for x in (("pop",), ("peek",), ("match_peek",), ("match_pop",), ("drop",), ("peek_slice", 0, None, True))]
    stackish += [("seq", [("push", ("charby", "any")), ("push", ("charby", "any")), x]) for x in
                 (("match_pop",), ("match_peek",), ("peek_slice", 0, None, False), ("peek_slice", -1, None, True), ("peek_slice", 0, 1, True), ("seq", [("pop",), ("pop",)]), ("seq", [("drop",), ("peek",)]))]
    # nested checkpoints: a succeeding inner sequence pops across the enclosing checkpoint, then the enclosing construct fails / is a look-ahead
    for tail in (("str", b"!"), ("eoi",)):
        stackish += [("seq", [("push_lit", b"a"), ("opt", ("seq", [("push_lit", b"b"), ("seq", [("pop",), ("pop",)]), tail])), ("peek_slice", 0, None, True)]),
                     ("seq", [("push", ("str", b"a")), ("choice", [("seq", [("push", ("str", b"b")), ("seq", [("drop",), ("drop",)]), tail]), ("chain", [("str", b"bba"), ("pop",)])])]),
                     ("seq", [("push_lit", b"x"), ("look", True, ("seq", [("push_lit", b"y"), ("seq", [("drop",), ("drop",)])])), ("peek",)]),
                     ("seq", [("push_lit", b"a"), ("restore_on_err", ("seq", [("push_lit", b"b"), ("restore_on_err", ("chain", [("drop",), ("drop",)])), tail])), ("drop",)])]
    # a slice match that fails part-way as the direct operand of a choice / optional / repetition
    stackish += [("seq", [("push", ("str", b"a")), ("push", ("str", b"b")), ("choice", [("match_peek",), ("chain", [("str", b"b"), ("str", b"c")])]), ("eoi",)]),
                 ("seq", [("push_lit", b"ab"), ("push_lit", b"cd"), ("opt", ("peek_slice", 0, 2, False)), ("charby", "any")]),
                 ("chain", [("push_lit", b"a"), ("push_lit", b"b"), ("choice", [("peek_slice", 0, None, False), ("str", b"ax")])])]
    # a repetition whose body succeeds without consuming input but changes the state (must run until the body fails)
    stackish += [("seq", [("push_lit", b"a"), ("push_lit", b"b"), ("rep", ("drop",))]),
                 ("seq", [("push", ("charby", "any")), ("push", ("charby", "any")), ("rep", ("drop",)), ("opt", ("peek",))]),
                 ("seq", [("push_lit", b""), ("push_lit", b""), ("push_lit", b"a"), ("rep", ("pop",)), ("charby", "any")]),
                 ("seq", [("push_lit", b"x"), ("push_lit", b"y"), ("rep", ("rule", 1, ("drop",)))]),
                 ("seq", [("push", ("opt", ("str", b"a"))), ("push", ("opt", ("str", b"a"))), ("rep", ("pop",))])]
    # a stack operation that pops and then fails, as the bare operand of a branching construct nested in another one
    stackish += [("seq", [("push", ("str", b"a")), ("choice", [("str", b"x"), ("pop",), ("str", b"b")]), ("match_peek",)]),
                 ("seq", [("push", ("str", b"a")), ("opt", ("seq", [("str", b"-"), ("opt", ("pop",))])), ("match_peek",)]),
                 ("seq", [("push", ("str", b"a")), ("rep", ("choice", [("pop",), ("str", b"b")])), ("opt", ("match_peek",))])]
    # atomicity: the same atomicity requested again inside (nothing to toggle), absorbed by ? | * !; and token generation switched
    # back on (NonAtomic rule) inside an atomic rule whose enclosing sequence then fails and is absorbed by a choice / repetition
    for k in (0, 1, 2):
        stackish += [("atomic", k, ("seq", [("str", b"a"), ("opt", ("atomic", k, ("str", b"b")))])),
                     ("atomic", k, ("choice", [("atomic", k, ("str", b"a")), ("str", b"b")])),
                     ("rule", 1, ("atomic", k, ("seq", [("rep", ("charby", "digit")), ("opt", ("rule", 2, ("atomic", k, ("seq", [("str", b"."), ("charby", "digit")]))))]))),
                     ("atomic", k, ("seq", [("look", False, ("atomic", k, ("str", b"b"))), ("charby", "any")]))]
    for inner in (2, 1):
        stackish += [("rule", 3, ("atomic", 0, ("choice", [("seq", [("atomic", inner, ("rule", 1, ("charby", "alpha"))), ("str", b"!")]), ("seq", [("atomic", inner, ("rule", 2, ("charby", "alpha"))), ("str", b"?")])]))),
                     ("rule", 3, ("atomic", 0, ("seq", [("rep", ("seq", [("atomic", inner, ("rule", 1, ("charby", "alpha"))), ("str", b"/")])), ("atomic", inner, ("rule", 2, ("charby", "alpha")))]))),
                     ("atomic", 0, ("seq", [("opt", ("seq", [("atomic", inner, ("rule", 1, ("str", b"a"))), ("str", b"b")])), ("charby", "any")]))]
    # detail tracking: a rule entered where an earlier alternative failed, containing a look-ahead that reaches further than anything before,
    # followed only by consumption that records no attempt (skip / stack matching)
    stackish += [("choice", [("rule", 1, ("str", b"let")), ("rule", 2, ("seq", [("look", True, ("charby", "alpha")), ("skip", 1)]))]),
                 ("rule", 3, ("choice", [("rule", 1, ("str", b"ab")), ("rule", 2, ("look", True, ("seq", [("charby", "any"), ("charby", "any")])))])),
                 ("choice", [("rule", 1, ("seq", [("str", b"a"), ("str", b"b")])), ("rule", 2, ("seq", [("look", True, ("str", b"ac")), ("skip", 2), ("opt", ("str", b"d"))]))]),
                 ("seq", [("opt", ("rule", 1, ("str", b"x"))), ("rule", 2, ("seq", [("look", False, ("str", b"y")), ("look", True, ("skip", 2)), ("skip", 1)]))])]
    # look-ahead whose body is a bare and_then chain (no enclosing sequence restores it) and fails after having moved
    stackish += [("seq", [("look", False, ("chain", [("str", b"a"), ("str", b"x")])), ("rule", 1, ("seq", [("str", b"a"), ("charby", "any")]))]),
                 ("choice", [("look", True, ("chain", [("charby", "any"), ("str", b"x")])), ("rule", 1, ("str", b"ab"))]),
                 ("seq", [("look", False, ("chain", [("skip_until", [b"z"]), ("str", b"z")])), ("charby", "any")]),
                 ("seq", [("opt", ("look", True, ("chain", [("skip", 1), ("charby", "digit")]))), ("rule", 2, ("charby", "alpha"))]),
                 ("look", False, ("chain", [("push", ("charby", "any")), ("str", b"q")]))]
    # every construct that absorbs a failure (? * !) around every kind of counted call, followed by something that still has to match
    for inner in (("rule", 1, ("str", b"a")), ("seq", [("str", b"a"), ("str", b"b")]), ("atomic", 0, ("str", b"a")), ("look", True, ("str", b"a")), ("opt", ("str", b"a")),
                  ("restore_on_err", ("str", b"a")), ("rep", ("str", b"a")), ("choice", [("str", b"a"), ("str", b"b")])):
        stackish += [("seq", [("opt", inner), ("charby", "any")]), ("seq", [("rep", ("seq", [inner, ("str", b"c")])), ("opt", ("charby", "any"))]), ("seq", [("look", False, inner), ("charby", "any")]),
                     ("rule", 3, ("choice", [("seq", [inner, ("str", b"!")]), ("charby", "any")]))]
    # restore_on_err over a bare chain that completes a token-producing rule and then fails; the failure is absorbed and parsing goes on
    stackish += [("rule", 3, ("choice", [("restore_on_err", ("chain", [("push", ("rule", 1, ("charby", "alpha"))), ("str", b":"), ("rule", 2, ("charby", "alpha"))])), ("rule", 2, ("rep", ("charby", "alpha")))])),
                 ("seq", [("opt", ("restore_on_err", ("chain", [("rule", 1, ("charby", "any")), ("push_lit", b"x"), ("str", b"!")]))), ("rule", 2, ("charby", "any"))]),
                 ("seq", [("rep", ("restore_on_err", ("chain", [("rule", 1, ("str", b"a")), ("drop",)]))), ("opt", ("rule", 2, ("str", b"a")))])]
    # a failing sequence that leaves position, queue length and stack *depth* as they were but has replaced the stack's contents
    # (drop + push), absorbed by ? | * ! and followed by something that reads the stack
    for body in (("seq", [("drop",), ("push_lit", b"b"), ("str", b"!")]), ("seq", [("drop",), ("drop",), ("push_lit", b"b"), ("push_lit", b"c"), ("eoi",), ("str", b"!")]),
                 ("seq", [("look", True, ("seq", [("drop",), ("push_lit", b"b")])), ("drop",), ("push", ("opt", ("str", b"!"))), ("str", b"!")])):
        stackish += [("seq", [("push_lit", b"a"), ("push_lit", b"a"), ("opt", body), ("peek_slice", 0, None, False)]),
                     ("seq", [("push_lit", b"a"), ("push_lit", b"a"), ("choice", [body, ("match_peek",)]), ("opt", ("pop",))]),
                     ("seq", [("push", ("charby", "any")), ("push", ("charby", "any")), ("look", False, body), ("match_pop",)]),
                     ("seq", [("push_lit", b"a"), ("push_lit", b"a"), ("rep", ("seq", [("str", b"a"), body])), ("peek",)])]
    stackish += [("pop",), ("peek",),
                 ("rep", ("rule", 1, ("str", b"a"))), ("opt", ("rule", 1, ("seq", [("str", b"a"), ("str", b"b")]))),
                 ("look", False, ("rule", 1, ("str", b"a"))), ("rule", 1, ("seq", [("str", b"a"), ("rep", ("rule", 2, ("range", 0x61, 0x7a)))])),
                 ("seq", [("opt", ("seq", [("push", ("str", b"a")), ("str", b"x")])), ("drop",)]),
                 ("choice", [("seq", [("push", ("charby", "any")), ("str", b"x")]), ("seq", [("drop",)]), ("charby", "any")])]
    out = list(L) + stackish + d1[:count // 6] + pairs[:count // 8]

    def rnd(depth):
        if depth <= 0 or rng.random() < 0.2:
            return rng.choice(L)
        r = rng.random()
        if r < 0.5:
            c = rnd(depth - 1)
            return rng.choice(wrap1(c))
        if r < 0.85:
            k = rng.choice([2, 2, 3])
            return (rng.choice(["seq", "seq", "choice", "chain"]), [rnd(depth - 1) for _ in range(k)])
        c = rnd(depth - 1)
        return ("seq", [("push", rng.choice([("charby", "any"), ("str", b"a"), ("range", 0x61, 0x63)])), c, rng.choice([("pop",), ("peek",), ("match_pop",), ("drop",)])])

    seen = set(sexpr(t) for t in out)
    tries = 0
    while len(out) < count and tries < count * 20:
        tries += 1
        t = rnd(rng.choice(range(2, maxdepth + 1)))
        s = sexpr(t)
        if s in seen: continue
        seen.add(s); out.append(t)
    return out
