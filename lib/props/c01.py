"""C01 — parsing conforms to the documented PEG semantics (engine M: pest_vm executed from MIR on symbolic input,
compared path by path with the reference semantics PegRef evaluated on the unoptimized rules)."""
import os, time, json, re
from common import *
import native, par
from mirsym.setup import program
import pegsym, vmsym, gramgen


def front(grammars, extras=False):
    reps = native.run_lines("grammar", [g.encode().hex() for g in grammars], extras=extras, timeout=1200)
    return [pegsym.parse_front_reply(r) for r in reps]


def classify(stages):
    """which rewriting passes changed this grammar (for keying known findings by role)"""
    ch = []
    prev = stages["ast"]
    for p in ("rotate", "skip", "unroll", "concatenate", "factor", "list"):
        cur = stages.get("upto_" + p)
        if cur is not None and cur != prev: ch.append(p)
        prev = cur if cur is not None else prev
    if stages.get("pre_restore") != stages.get("post_restore"): ch.append("restore_on_err")
    return ch


def match_known(known, grammar, stages, start, row, diff):
    """A deviation VM(optimized) != reference(unoptimized) is attributed, on the concrete witness input, to the optimizer
    pass(es) at which the reference outcome of the rules changes. It matches a known finding only if (1) the reference
    evaluated on the *final optimized rules* agrees with the VM (so the runtime/VM itself is faithful) and (2) every
    culprit pass is listed by an entry whose side condition holds. Anything else is a new violation."""
    inp = b"" if row["inp"] == "-" else bytes.fromhex(row["inp"])
    culprits, final = pegsym.attribute(stages, start, inp)
    row["attributed_to"] = culprits
    if not culprits and not pegsym.same_outcome(final, row["vm"]):
        # no pass to blame: does the deviation disappear when #tag is read the way tag_node implements it?
        leg = pegsym.run_concrete(stages["optimized"], start, inp, tag_legacy=True)
        if pegsym.same_outcome(leg, row["vm"]):
            return next((e for e in known if e.get("role") == "tag_on_pairless_expression"), None)
        return None
    if not culprits or not pegsym.same_outcome(final, row["vm"]): return None
    hits = []
    for c in culprits:
        e = next((e for e in known if e.get("role") == "pass:" + c and side_condition(e, grammar)), None)
        if e is None: return None
        hits.append(e)
    return hits[0]


def side_condition(e, grammar):
    cond = e.get("requires")
    if cond == "implicit_skip": return "WHITESPACE" in grammar or "COMMENT" in grammar
    return True


def native_vm(reqs, extras=False):
    return native.run_lines("vm", reqs, extras=extras, timeout=3000) if reqs else []


def parse_vm_reply(rep):
    if rep.startswith("OK"):
        m = re.match(r"OK (\S*) ?tags=(\S*)", rep)
        return {"res": "OK", "toks": m.group(1), "tags": m.group(2)}
    if rep.startswith("ERR"):
        m = re.match(r"ERR at=(\S+) lc=\S+ (\S+)", rep)
        return {"res": "ERR", "at": m.group(1), "var": m.group(2)}
    if rep.startswith("PANIC"): return {"res": "PANIC", "msg": rep[6:]}
    return {"res": "?", "raw": rep}


def run_one(ctx, extras=False):
    feats = ("grammar-extras",) if extras else ()
    P = program(("pest", "pest_vm"), features=feats)
    native.build(extras)
    known, _ = load_known(ctx.prop)
    N = int(os.environ.get("VERIF_C01_N", "4" if ctx.quick else "5"))
    count = int(os.environ.get("VERIF_C01_GRAMMARS", "300" if ctx.quick else "1500"))
    gs = gramgen.family(ctx.seed, count, extras=extras)
    # ordinary constructs in every context (rule types, implicit rules, body of the referenced rule): a window that rotates with the seed / all
    cross = gramgen.crossed_slice(ctx.seed, int(os.environ.get("VERIF_C01_CROSS", "200" if ctx.quick else "900")))
    gs = gs + [g for g in cross if g not in set(gs)]
    stages = front(gs, extras)
    accepted = [(g, s) for g, s in zip(gs, stages) if "error" not in s]
    rejected = len(gs) - len(accepted)
    panics = [(g, s["error"]) for g, s in zip(gs, stages) if "error" in s and s["error"].startswith("PANIC")]
    jobs = []
    for gi, (g, s) in enumerate(accepted):
        for start in ("a", "b"):
            jobs.append((gi, start))
    t0 = time.time()
    res = par.pmap(vmsym.explore_grammar, [(P, accepted[gi][1]["optimized"], accepted[gi][1]["ast"], start, N, {"max_steps": 200_000}) for gi, start in jobs], NCPU)
    errs = [(accepted[j[0]][0], r[1]) for j, r in zip(jobs, res) if r[0] == "err"]
    if errs: raise Inconclusive(f"executor failed on {len(errs)} grammar runs, e.g.\n{errs[0][0]}\n{errs[0][1][:1500]}")
    results = [r[1] for r in res]
    paths = sum(r["paths"] for r in results)
    ctx.log(f"{len(accepted)} grammars accepted ({rejected} rejected by pest), {len(jobs)} (grammar,start) runs, inputs 0..{N}: {paths} paths, {sum(r['queries'] for r in results)} queries, {time.time()-t0:.1f}s")
    # native validation of every path
    reqs = []; idx = []
    for ji, ((gi, start), r) in enumerate(zip(jobs, results)):
        ghex = accepted[gi][0].encode().hex()
        for wi, row in enumerate(r["rows"]):
            if row.get("inp") is None or row["vm"]["res"] == "NONTERM": continue
            reqs.append(f"0 0 {row['inp']} {start} {ghex}"); idx.append((ji, wi))
    reps = native_vm(reqs, extras)
    enc = []; events = []; validated = 0; nonterm = []
    for (ji, wi), rep, req in zip(idx, reps, reqs):
        gi, start = jobs[ji]; row = results[ji]["rows"][wi]
        nat = parse_vm_reply(rep); vm = row["vm"]
        agree = nat["res"] == vm["res"] and (nat["res"] != "OK" or (nat["toks"] == vm["toks"] and nat["tags"] == vm["tags"]))
        if not agree:
            enc.append({"grammar": accepted[gi][0], "req": req, "pred": vm, "native": rep}); continue
        validated += 1
        d = vmsym.differs(vm, row["ref"])
        if d and row["ref"]["res"] == "OK" and vm["res"] == "OK" and nat["res"] == "OK":
            pass
        if d:
            g, st = accepted[gi]
            what = f"grammar:\n{g}\nstart rule {start}, input {row['inp']}: {d}"
            hit = match_known(known, g, st, start, row, d)
            if hit is not None:
                if not any(h[0].get('role') == hit.get('role') for h in ctx.known_hits):
                    ctx.known_hits.append((hit, hit["what"] + f" [witness: start {start}, input {row['inp']}, grammar {g!r}]"))
            elif len(ctx.violations) < 10:
                pth = save_replay(ctx, f"gram-{abs(hash(req)) % 10**8}.json", {"kind": "vm", "req": req, "grammar": g, "start": start, "input": row["inp"], "ref": row["ref"], "what": d, "extras": extras})
                ctx.violations.append((what, pth, req))
    for (gi, start), r in zip(jobs, results):
        for row in r["rows"]:
            if row.get("event"): events.append(f"{accepted[gi][0]!r} start {start} (len {row['n']}): {row['event']}")
            elif row["vm"]["res"] == "NONTERM": nonterm.append((accepted[gi][0], start, row["inp"], row["ref"]["res"]))
    ctx.log(f"native validation: {validated} paths agree, {len(enc)} encoder mismatches, {len(events)} events, {len(nonterm)} non-terminating runs (left to C06)")
    fns = sorted(set(f for r in results for f in r["fns"]))
    samples = [{"grammar": accepted[gi][0], "start": start, "input_hex": r["rows"][-1]["inp"], "vm": r["rows"][-1].get("vm")} for (gi, start), r in list(zip(jobs, results))[::max(1, len(jobs) // 5)][:5] if r["rows"]]
    cov = {
        "programs": len(accepted), "disagreements_checked": paths, "samples": samples,
        "traces_validated_against_impl": validated, "exhaustive": False,
        "functions_encoded": fns,
        "bounds": f"{len(accepted)} accepted grammars of the enumerated/seeded family incl. {len(cross)} of the crossed shape x context family (seed {ctx.seed}; {rejected} rejected by pest's validator) x start rules {{a,b}} x every valid UTF-8 input of 0..{N} bytes (symbolic); features: {'grammar-extras' if extras else 'default'}",
        "paths": paths, "queries_discharged": sum(r["queries"] for r in results), "solver_time_s": round(sum(r["solver_s"] for r in results), 2),
        "encoder_mismatches": len(enc), "events": events[:10], "non_terminating_runs": len(nonterm), "front_end_panics": [p[0] for p in panics][:5],
        "explanation": "programs = grammars; disagreements_checked = explored (grammar,start,input class) paths on which VM and reference outcomes were compared",
    }
    return cov, enc, events


def run(ctx):
    variants = [False] if ctx.quick and os.environ.get("VERIF_C01_EXTRAS") != "1" else [False, True]
    covs = []; enc = []; events = []
    for ex in variants:
        c, e, ev = run_one(ctx, ex)
        covs.append(c); enc += e; events += ev
    cov = dict(covs[0])
    for c in covs[1:]:
        for k in ("programs", "disagreements_checked", "traces_validated_against_impl", "paths", "queries_discharged", "solver_time_s", "encoder_mismatches", "non_terminating_runs"):
            cov[k] = cov[k] + c[k]
        cov["samples"] = cov["samples"] + c["samples"][:2]
        cov["functions_encoded"] = sorted(set(cov["functions_encoded"]) | set(c["functions_encoded"]))
        cov["bounds"] = cov["bounds"] + " || " + c["bounds"]
    write_evidence(ctx, "translation_validation", cov,
                   ["MIR dump corresponds to the compiled code; std summaries validated by native replay of every path (tokens / failure)",
                    "reference semantics: lib/pegsym.py PegRef on the unoptimized rules; user rules shadow built-ins; WHITESPACE/COMMENT interiors are atomic",
                    "grammar family is enumerated/seeded, not symbolic; Unicode property built-ins are covered by C16 only",
                    "known findings are matched by attributing the deviation, on the witness input, to optimizer passes (reference evaluated on every pipeline stage) and requiring the VM to agree with the reference on the final optimized rules"],
                   {"repo_hashes": repo_hashes(["vm/src/lib.rs", "pest/src/parser_state.rs", "pest/src/position.rs", "pest/src/stack.rs", "meta/src/optimizer/mod.rs"])})
    if ctx.violations: return
    if enc: raise Inconclusive(f"ENCODER-MISMATCH on {len(enc)} paths, e.g. {enc[0]}")
    if events: raise Inconclusive(f"{len(events)} executor events, e.g. {events[0]}")


def replay(ctx, path):
    d = json.load(open(path))
    rep = native_vm([d["req"]], d.get("extras", False))[0]
    nat = parse_vm_reply(rep); ref = d["ref"]
    print("native:", rep); print("reference:", ref)
    bad = nat["res"] != ref["res"] or (nat["res"] == "OK" and (nat["toks"] != ref["toks"] or nat["tags"] != ref["tags"]))
    if bad:
        print(f"VIOLATION property={ctx.prop} replay={path}"); return 1
    print("replay: native VM agrees with the reference on acceptance and tokens (position/stack differences are not observable through Vm::parse)"); return 0
