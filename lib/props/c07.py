"""C07 (reduced, DESIGN.md §5 C07) — the literal-unescaping kernel of the grammar reader, on engine M:
(A) pest_meta::parser::unescape (MIR) equals a reference unescaper for every string up to N bytes;
(B) every text that the meta-grammar's `string` / `character` token syntax accepts is unescaped successfully — a None there
    is the expect("incorrect string literal") panic of consume_expr."""
import os, time, json, re
import z3
from common import *
import native, par
from mirsym.interp import Explorer, Interp
from mirsym.values import *
from mirsym.setup import program, fn_evidence
from mirsym.summaries import S
from mirsym.summaries_str import decode_front, encode_char
from progsym import utf8_constraints
from props.c03 import S_STATE
from props import c01


class RefNone(Exception):
    pass


def ref_unescape(W, bs):
    """reference: Rust-style escapes \\" \\\\ \\r \\n \\t \\0 \\' \\xHH \\u{H..H} (2-6 hex digits, a Unicode scalar value)"""
    class _I: pass
    I = _I(); I.W = W
    out = []; p = 0; n = len(bs)
    def br(c): return W.branch(c) if is_sym(c) else bool(c)
    def is_(p, v): return p < n and br(bs[p] == v if is_sym(bs[p]) else bs[p] == v)
    def hexv(p):
        if p >= n: raise RefNone()
        b = bs[p]
        for lo, hi, base in ((48, 57, 48), (97, 102, 87), (65, 70, 55)):
            if br(z3.And(z3.UGE(b, lo), z3.ULE(b, hi)) if is_sym(b) else lo <= b <= hi):
                return (z3.ZeroExt(24, b) - base) if is_sym(b) else b - base
        raise RefNone()
    while p < n:
        if not is_(p, 0x5C):
            c, ln = decode_front(I, SliceRef(VecObj(bs), p, n - p, True))
            out += bs[p:p + ln]; p += ln; continue
        p += 1
        if p >= n: raise RefNone()
        for ch, val in ((0x22, 0x22), (0x5C, 0x5C), (0x72, 13), (0x6E, 10), (0x74, 9), (0x30, 0), (0x27, 0x27)):
            if is_(p, ch):
                out.append(val); p += 1; break
        else:
            if is_(p, 0x78):
                # two characters follow, both hex digits (u8 value -> char, i.e. Latin-1)
                if p + 2 >= n: raise RefNone()
                for k in (1, 2):
                    if is_sym(bs[p + k]):
                        if not br(z3.ULT(bs[p + k], 0x80)): raise RefNone()      # a multi-byte char is never a hex digit
                    elif bs[p + k] >= 0x80: raise RefNone()
                v = hexv(p + 1) * 16 + hexv(p + 2)
                out += encode_char(I, v); p += 3
            elif is_(p, 0x75):
                if not is_(p + 1, 0x7B): raise RefNone()
                q = p + 2; v = 0; nd = 0
                while True:
                    if q >= n: raise RefNone()
                    if is_(q, 0x7D): break
                    if is_sym(bs[q]):
                        if not br(z3.ULT(bs[q], 0x80)): raise RefNone()
                    elif bs[q] >= 0x80: raise RefNone()
                    v = v * 16 + hexv(q); nd += 1; q += 1
                    if nd > 6: raise RefNone()
                if nd < 2: raise RefNone()
                okc = z3.Or(z3.ULT(v, 0xD800), z3.And(z3.UGT(v, 0xDFFF), z3.ULT(v, 0x110000))) if is_sym(v) else (v < 0xD800 or 0xDFFF < v < 0x110000)
                if not br(okc): raise RefNone()
                out += encode_char(I, v); p = q + 1
            else:
                raise RefNone()
    return out


def explore_unescape(args):
    P, spec = args
    ex = Explorer(max_steps=400_000)
    if spec[0] == "free":
        n = spec[1]; bs = [z3.BitVec(f"b{i}", 8) for i in range(n)]
        ex.add_base(*utf8_constraints(bs))
    else:
        tb, holes = spec[1], spec[2]
        bs = [z3.BitVec(f"b{i}", 8) if i in holes else tb[i] for i in range(len(tb))]
        for i in holes: ex.add_base(z3.ULT(bs[i], 0x80))
        n = len(tb)
    rows = []; fns = set()

    def body(W):
        I = Interp(P, W, S)
        inp = SliceRef(VecObj(list(bs), "input"), 0, n, True)
        out = {}
        try:
            r = I.call("", "parser::unescape", [inp])
            out["impl"] = list(r.f[0].f) if r.idx == 1 else None
        except Panic as e: out["panic"] = str(e)
        fns.update(I.fn_used)
        try: out["ref"] = ref_unescape(W, list(bs))
        except RefNone: out["ref"] = None
        if out.get("impl") is not None and out["ref"] is not None and len(out["impl"]) == len(out["ref"]):
            for x, y in zip(out["impl"], out["ref"]):
                if x is y or (not is_sym(x) and not is_sym(y)): continue
                mm = W.model_for(x != y)
                if mm is not None: out["model"] = mm
        return out

    for W, res in ex.explore(body):
        if isinstance(res, Exception):
            rows.append({"event": f"{type(res).__name__}: {res}"}); continue
        m = res.get("model") or W.get_model()
        ev = lambda x: m.eval(x, model_completion=True).as_long() if is_sym(x) else x
        rows.append({"inp": bytes(ev(b) for b in bs).hex() or "-", "impl": None if res.get("impl") is None else bytes(ev(x) for x in res["impl"]).hex(),
                     "ref": None if res["ref"] is None else bytes(ev(x) for x in res["ref"]).hex(), "panic": res.get("panic")})
    return {"spec": str(spec)[:60], "rows": rows, "queries": ex.nqueries, "solver_s": ex.solver_time, "fns": fn_evidence(fns)}


def explore_token(args):
    """(B): texts accepted by the meta rule (string|character) of the checked-in parser must unescape to Some"""
    P, rule, spec = args
    ex = Explorer(max_steps=600_000)
    if spec[0] == "free":
        n = spec[1]; bs = [z3.BitVec(f"b{i}", 8) for i in range(n)]
        ex.add_base(*utf8_constraints(bs))
    else:
        tb, holes = spec[1], spec[2]
        bs = [z3.BitVec(f"b{i}", 8) if i in holes else tb[i] for i in range(len(tb))]
        for i in holes: ex.add_base(z3.ULT(bs[i], 0x80))
        n = len(tb)
    rows = []; fns = set()

    def body(W):
        W.globals["CALL_LIMIT"] = 0; W.globals["ERROR_DETAIL"] = False
        I = Interp(P, W, S_STATE)
        inp = SliceRef(VecObj(list(bs), "input"), 0, n, True)
        r = I.call("", "<PestParser as Parser>::parse", [I.make_adt(f"parser::Rule::{rule}", []), inp])
        fns.update(I.fn_used)
        if r.idx != 0: return None
        v = r.f[0]; q = I.deref(v.f[0]).f
        # accepted: the outer pair must span the whole text (the token is exactly this text)
        if not q or q[-1].f[3] != n: return None
        I2 = Interp(P, W, S)
        u = I2.call("", "parser::unescape", [SliceRef(VecObj(list(bs), "input"), 0, n, True)])
        return "some" if u.idx == 1 else "none"

    for W, res in ex.explore(body):
        if isinstance(res, Exception):
            rows.append({"event": f"{type(res).__name__}: {res}"}); continue
        if res is None: continue
        m = W.get_model()
        rows.append({"inp": bytes((m.eval(b, model_completion=True).as_long() if is_sym(b) else b) for b in bs).hex(), "unescape": res})
    return {"rule": rule, "spec": str(spec)[:60], "rows": rows, "queries": ex.nqueries, "solver_s": ex.solver_time, "fns": fn_evidence(fns)}


def tmpl(s, hole="H"):
    b = s.encode(); return ("tmpl", b, {i for i, c in enumerate(b) if c == ord(hole)})


def load():
    from mirsym import dump
    from mirsym.interp import Program
    import gensym
    P = program(("pest", "pest_meta"))
    src = open(os.path.join(REPO, "meta/src/grammar.rs")).read()
    P.variants["parser::Rule"] = gensym.enum_variants(src)
    P.variants["Rule"] = P.variants["parser::Rule"]
    return P


def run(ctx):
    native.build()
    P = load()
    known, _ = load_known("C07")
    N = int(os.environ.get("VERIF_C07_N", "4" if ctx.quick else "5"))
    specsA = [("free", n) for n in range(N + 1)] + [tmpl(s) for s in ['\\xHH', 'a\\xHHb', '\\u{HH}', '\\u{HHH}', '\\u{HHHH}', '\\u{HH0HH}', '\\u{10HHHH}', '\\u{0HH0HH}', '\\u{00000HH}', '\\u{H}', '\\H', '\\uH41}', '\\u{41H', '\\x4', 'é\\H']]
    specsB = [("string", ("free", n)) for n in range(2, N + 2)] + [("character", ("free", n)) for n in range(2, N + 2)]
    specsB += [("string", tmpl(s)) for s in ['"\\u{HHHH}"', '"\\u{HH0HH}"', '"\\u{HH00HH}"', '"\\xHH"', '"\\u{HH}"', '"a\\Hb"']] + [("character", tmpl(s)) for s in ["'\\u{HHHH}'", "'\\u{HH00HH}'", "'\\xHH'", "'\\H'"]]
    t0 = time.time()
    resA = par.pmap(explore_unescape, [(P, s) for s in specsA], NCPU)
    resB = par.pmap(explore_token, [(P, r, s) for r, s in specsB], NCPU)
    errs = [r[1] for r in resA + resB if r[0] == "err"]
    if errs: raise Inconclusive(f"executor failed: {errs[0][:1500]}")
    resA = [r[1] for r in resA]; resB = [r[1] for r in resB]
    pa = sum(len(r["rows"]) for r in resA); pb = sum(len(r["rows"]) for r in resB)
    ctx.log(f"(A) unescape vs reference: {pa} paths; (B) accepted literal tokens: {pb} accepting paths; {time.time()-t0:.1f}s")
    # native validation of (A) through the hook
    lines = [row["inp"] for r in resA for row in r["rows"] if row.get("inp")]
    reps = native.run_lines("unescape", lines) if lines else []
    k = 0; enc = []; events = []; validated = 0
    for r in resA:
        for row in r["rows"]:
            if row.get("event"): events.append(row["event"]); continue
            rep = reps[k]; k += 1
            pred = "PANIC" if row["panic"] else ("NONE" if row["impl"] is None else "SOME " + (row["impl"] or "-"))
            if rep != pred and not (rep.startswith("PANIC") and pred == "PANIC"):
                enc.append({"input": row["inp"], "pred": pred, "native": rep}); continue
            validated += 1
            if row["ref"] is None:
                continue      # not a well-formed escape sequence / scalar value: no caller passes it (the token syntax filters it; (B) checks that)
            want = "SOME " + (row["ref"] or "-")
            if rep != want and len(ctx.violations) < 10:
                pth = save_replay(ctx, f"unescape-{row['inp']}.json", {"kind": "unescape", "input": row["inp"], "want": want})
                ctx.violations.append((f"unescape({bytes.fromhex(row['inp']) if row['inp'] != '-' else b''!r}) = {rep}, reference: {want}", pth, row["inp"]))
    # (B): every 'none' is a would-be panic: confirm through the real front-end
    bad = [(r["rule"], row["inp"]) for r in resB for row in r["rows"] if row.get("unescape") == "none"]
    for r in resB:
        for row in r["rows"]:
            if row.get("event"): events.append(row["event"])
    seen = set()
    for rule, inp in bad:
        lit = bytes.fromhex(inp).decode(errors="replace")
        g = f"a = {{ {lit} }}" if rule == "string" else f"a = {{ {lit}..'z' }}"
        rep = native.run_lines("grammar", [g.encode().hex()])[0]
        if rep.startswith("ERR"): continue          # reported as a located error: that is the required behaviour
        if not rep.startswith("PANIC"):
            events.append(f"token {lit!r} accepted and unescape None, but the front-end accepts the grammar: {rep[:120]}"); continue
        what = f"grammar {g!r}: the {rule} literal is accepted by the meta-grammar but cannot be unescaped; the front-end panics: {rep[:160]}"
        hit = next((e for e in known if e.get("role") == "unescapable_literal"), None)
        if hit is not None:
            if not any(h[0] is hit for h in ctx.known_hits): ctx.known_hits.append((hit, hit["what"] + f" [witness: {g!r}]"))
        elif len(ctx.violations) < 10 and lit not in seen:
            seen.add(lit)
            pth = save_replay(ctx, f"literal-{inp}.json", {"kind": "literal", "grammar": g})
            ctx.violations.append((what, pth, g))
    ctx.log(f"native validation: {validated} unescape paths agree, {len(enc)} encoder mismatches, {len(bad)} accepted-but-unescapable literals, {len(events)} events")
    cov = {"explanation": "reduced form of C07: only the unescaping kernel and its agreement with the literal token syntax are decided; precedence/associativity, counts, PEEK indices and the round trip through concrete syntax are not (see DESIGN.md)",
           "evaluations": pa + pb, "distinct_nontrivial": pa, "paths_unescape": pa, "paths_accepted_tokens": pb, "traces_validated_against_impl": validated,
           "samples": [row["inp"] for r in resA for row in r["rows"][:1] if row.get("inp")][:6] + [row["inp"] for r in resB for row in r["rows"][:1] if row.get("inp")][:4],
           "functions_encoded": sorted(set(f for r in resA + resB for f in r["fns"]))[:200],
           "bounds": f"(A) every valid UTF-8 string of 0..{N} bytes + 14 escape templates with symbolic hex digits / escape letters; (B) every text of 2..{N+1} bytes and 10 templates accepted by the checked-in meta-parser's `string` / `character` rules",
           "queries_discharged": sum(r["queries"] for r in resA + resB), "solver_time_s": round(sum(r["solver_s"] for r in resA + resB), 2), "encoder_mismatches": len(enc), "events": events[:8], "exhaustive": False}
    write_evidence(ctx, "other", cov, ["MIR of pest_meta::parser::unescape and of the checked-in meta-parser; String/Chars/take/take_while/collect/from_str_radix/char::from_u32 summarised and validated by native replay through the cfg-guarded hook verif_unescape"],
                   {"repo_hashes": repo_hashes(["meta/src/parser.rs", "meta/src/grammar.pest", "meta/src/grammar.rs"])})
    if ctx.violations: return
    if enc: raise Inconclusive(f"ENCODER-MISMATCH on {len(enc)} paths, e.g. {enc[0]}")
    if events: raise Inconclusive(f"{len(events)} events, e.g. {events[0]}")


def replay(ctx, path):
    d = json.load(open(path))
    native.build()
    if d["kind"] == "unescape":
        rep = native.run_lines("unescape", [d["input"]])[0]
        print(rep, "| want", d["want"])
        if rep != d["want"]:
            print(f"VIOLATION property=C07 replay={path}"); return 1
        return 0
    rep = native.run_lines("grammar", [d["grammar"].encode().hex()])[0]
    print(rep[:300])
    if rep.startswith("PANIC"):
        print(f"VIOLATION property=C07 replay={path}"); return 1
    return 0
