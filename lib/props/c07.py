"""C07 (reduced, DESIGN.md §5 C07) — the literal-unescaping kernel of the grammar reader, on engine M:
(A) pest_meta::parser::unescape (MIR) equals a reference unescaper for every string up to N bytes;
(B) every text that the meta-grammar's `string` / `character` token syntax accepts is unescaped successfully — a None there
    is the expect("incorrect string literal") panic of consume_expr."""
import os, time, json, re
import z3
from common import *
import native, par
from mirsym.interp import Explorer, Interp
from mirsym.values import *
from mirsym.setup import program, fn_evidence
from mirsym.summaries import S
from mirsym.summaries_str import decode_front, encode_char
from progsym import utf8_constraints
from props.c03 import S_STATE
from props import c01


class RefNone(Exception):
    pass


def ref_unescape(W, bs):
    """reference: Rust-style escapes \\" \\\\ \\r \\n \\t \\0 \\' \\xHH \\u{H..H} (2-6 hex digits, a Unicode scalar value)"""
    class _I: pass
    I = _I(); I.W = W
    out = []; p = 0; n = len(bs)
    def br(c): return W.branch(c) if is_sym(c) else bool(c)
    def is_(p, v): return p < n and br(bs[p] == v if is_sym(bs[p]) else bs[p] == v)
    def hexv(p):
        if p >= n: raise RefNone()
        b = bs[p]
        for lo, hi, base in ((48, 57, 48), (97, 102, 87), (65, 70, 55)):
            if br(z3.And(z3.UGE(b, lo), z3.ULE(b, hi)) if is_sym(b) else lo <= b <= hi):
                return (z3.ZeroExt(24, b) - base) if is_sym(b) else b - base
        raise RefNone()
    while p < n:
        if not is_(p, 0x5C):
            c, ln = decode_front(I, SliceRef(VecObj(bs), p, n - p, True))
            out += bs[p:p + ln]; p += ln; continue
        p += 1
        if p >= n: raise RefNone()
        for ch, val in ((0x22, 0x22), (0x5C, 0x5C), (0x72, 13), (0x6E, 10), (0x74, 9), (0x30, 0), (0x27, 0x27)):
            if is_(p, ch):
                out.append(val); p += 1; break
        else:
            if is_(p, 0x78):
                # two characters follow, both hex digits (u8 value -> char, i.e. Latin-1)
                if p + 2 >= n: raise RefNone()
                for k in (1, 2):
                    if is_sym(bs[p + k]):
                        if not br(z3.ULT(bs[p + k], 0x80)): raise RefNone()      # a multi-byte char is never a hex digit
                    elif bs[p + k] >= 0x80: raise RefNone()
                v = hexv(p + 1) * 16 + hexv(p + 2)
                out += encode_char(I, v); p += 3
            elif is_(p, 0x75):
                if not is_(p + 1, 0x7B): raise RefNone()
                q = p + 2; v = 0; nd = 0
                while True:
                    if q >= n: raise RefNone()
                    if is_(q, 0x7D): break
                    if is_sym(bs[q]):
                        if not br(z3.ULT(bs[q], 0x80)): raise RefNone()
                    elif bs[q] >= 0x80: raise RefNone()
                    v = v * 16 + hexv(q); nd += 1; q += 1
                    if nd > 6: raise RefNone()
                if nd < 2: raise RefNone()
                okc = z3.Or(z3.ULT(v, 0xD800), z3.And(z3.UGT(v, 0xDFFF), z3.ULT(v, 0x110000))) if is_sym(v) else (v < 0xD800 or 0xDFFF < v < 0x110000)
                if not br(okc): raise RefNone()
                out += encode_char(I, v); p = q + 1
            else:
                raise RefNone()
    return out


def explore_unescape(args):
    P, spec = args
    ex = Explorer(max_steps=400_000)
    if spec[0] == "free":
        n = spec[1]; bs = [z3.BitVec(f"b{i}", 8) for i in range(n)]
        ex.add_base(*utf8_constraints(bs))
    else:
        tb, holes = spec[1], spec[2]
        bs = [z3.BitVec(f"b{i}", 8) if i in holes else tb[i] for i in range(len(tb))]
        for i in holes: ex.add_base(z3.ULT(bs[i], 0x80))
        n = len(tb)
    rows = []; fns = set()

    def body(W):
        I = Interp(P, W, S)
        inp = SliceRef(VecObj(list(bs), "input"), 0, n, True)
        out = {}
        try:
            r = I.call("", "parser::unescape", [inp])
            out["impl"] = list(r.f[0].f) if r.idx == 1 else None
        except Panic as e: out["panic"] = str(e)
        fns.update(I.fn_used)
        try: out["ref"] = ref_unescape(W, list(bs))
        except RefNone: out["ref"] = None
        if out.get("impl") is not None and out["ref"] is not None and len(out["impl"]) == len(out["ref"]):
            for x, y in zip(out["impl"], out["ref"]):
                if x is y or (not is_sym(x) and not is_sym(y)): continue
                mm = W.model_for(x != y)
                if mm is not None: out["model"] = mm
        return out

    for W, res in ex.explore(body):
        if isinstance(res, Exception):
            rows.append({"event": f"{type(res).__name__}: {res}"}); continue
        m = res.get("model") or W.get_model()
        ev = lambda x: m.eval(x, model_completion=True).as_long() if is_sym(x) else x
        rows.append({"inp": bytes(ev(b) for b in bs).hex() or "-", "impl": None if res.get("impl") is None else bytes(ev(x) for x in res["impl"]).hex(),
                     "ref": None if res["ref"] is None else bytes(ev(x) for x in res["ref"]).hex(), "panic": res.get("panic")})
    return {"spec": str(spec)[:60], "rows": rows, "queries": ex.nqueries, "solver_s": ex.solver_time, "fns": fn_evidence(fns)}


def explore_token(args):
    """(B): texts accepted by the meta rule (string|character) of the checked-in parser must unescape to Some"""
    P, rule, spec = args
    ex = Explorer(max_steps=600_000)
    if spec[0] == "free":
        n = spec[1]; bs = [z3.BitVec(f"b{i}", 8) for i in range(n)]
        ex.add_base(*utf8_constraints(bs))
    else:
        tb, holes = spec[1], spec[2]
        bs = [z3.BitVec(f"b{i}", 8) if i in holes else tb[i] for i in range(len(tb))]
        for i in holes: ex.add_base(z3.ULT(bs[i], 0x80))
        n = len(tb)
    rows = []; fns = set()

    def body(W):
        W.globals["CALL_LIMIT"] = 0; W.globals["ERROR_DETAIL"] = False
        I = Interp(P, W, S_STATE)
        inp = SliceRef(VecObj(list(bs), "input"), 0, n, True)
        r = I.call("", "<PestParser as Parser>::parse", [I.make_adt(f"parser::Rule::{rule}", []), inp])
        fns.update(I.fn_used)
        if r.idx != 0: return None
        v = r.f[0]; q = I.deref(v.f[0]).f
        # accepted: the outer pair must span the whole text (the token is exactly this text)
        if not q or q[-1].f[3] != n: return None
        I2 = Interp(P, W, S)
        u = I2.call("", "parser::unescape", [SliceRef(VecObj(list(bs), "input"), 0, n, True)])
        return "some" if u.idx == 1 else "none"

    for W, res in ex.explore(body):
        if isinstance(res, Exception):
            rows.append({"event": f"{type(res).__name__}: {res}"}); continue
        if res is None: continue
        m = W.get_model()
        rows.append({"inp": bytes((m.eval(b, model_completion=True).as_long() if is_sym(b) else b) for b in bs).hex(), "unescape": res})
    return {"rule": rule, "spec": str(spec)[:60], "rows": rows, "queries": ex.nqueries, "solver_s": ex.solver_time, "fns": fn_evidence(fns)}


def tmpl(s, hole="H"):
    b = s.encode(); return ("tmpl", b, {i for i, c in enumerate(b) if c == ord(hole)})


def load():
    from mirsym import dump
    from mirsym.interp import Program
    import gensym
    P = program(("pest", "pest_meta"))
    src = open(os.path.join(REPO, "meta/src/grammar.rs")).read()
    P.variants["parser::Rule"] = gensym.enum_variants(src)
    P.variants["Rule"] = P.variants["parser::Rule"]
    return P


def run(ctx):
    native.build()
    P = load()
    known, _ = load_known("C07")
    N = int(os.environ.get("VERIF_C07_N", "4" if ctx.quick else "5"))
    specsA = [("free", n) for n in range(N + 1)] + [tmpl(s) for s in ['\\xHH', 'a\\xHHb', '\\u{HH}', '\\u{HHH}', '\\u{HHHH}', '\\u{HH0HH}', '\\u{10HHHH}', '\\u{0HH0HH}', '\\u{00000HH}', '\\u{H}', '\\H', '\\uH41}', '\\u{41H', '\\x4', 'é\\H']]
    specsB = [("string", ("free", n)) for n in range(2, N + 2)] + [("character", ("free", n)) for n in range(2, N + 2)]
    specsB += [("string", tmpl(s)) for s in ['"\\u{HHHH}"', '"\\u{HH0HH}"', '"\\u{HH00HH}"', '"\\xHH"', '"\\u{HH}"', '"a\\Hb"']] + [("character", tmpl(s)) for s in ["'\\u{HHHH}'", "'\\u{HH00HH}'", "'\\xHH'", "'\\H'"]]
    t0 = time.time()
    resA = par.pmap(explore_unescape, [(P, s) for s in specsA], NCPU)
    resB = par.pmap(explore_token, [(P, r, s) for r, s in specsB], NCPU)
    errs = [r[1] for r in resA + resB if r[0] == "err"]
    if errs: raise Inconclusive(f"executor failed: {errs[0][:1500]}")
    resA = [r[1] for r in resA]; resB = [r[1] for r in resB]
    pa = sum(len(r["rows"]) for r in resA); pb = sum(len(r["rows"]) for r in resB)
    ctx.log(f"(A) unescape vs reference: {pa} paths; (B) accepted literal tokens: {pb} accepting paths; {time.time()-t0:.1f}s")
    # ---- (C) round trip through concrete syntax
    t1 = time.time()
    resC = run_roundtrip(ctx, P)
    pc = sum(len(r["rows"]) for r in resC)
    eventsC = []; rejectedC = 0
    for r in resC:
        for row in r["rows"]:
            if row.get("event"): eventsC.append(f"{r['expr']}: {row['event']}"); continue
            if row["res"] == "consume_rules returned errors":
                rejectedC += 1; continue       # the written rule is not a valid grammar (e.g. b?*): outside the round-trip clause
            if row["res"] != "ok" and len(ctx.violations) < 10:
                txt = bytes.fromhex(row["text"]).decode(errors="replace")
                hit = next((e for e in known if e.get("role") == "roundtrip" and re.search(e["pattern"], txt)), None)
                what = f"grammar text {txt!r} is read back as {row['got'] or row['res']} instead of {r['want']}"
                if hit is not None:
                    if not any(h[0] is hit for h in ctx.known_hits): ctx.known_hits.append((hit, hit["what"] + f" [witness: {txt!r}]"))
                else:
                    pth = save_replay(ctx, f"roundtrip-{abs(hash(row['text'])) % 10**8}.json", {"kind": "roundtrip", "text": row["text"], "want": r["want"]})
                    ctx.violations.append((what, pth, row["text"]))
    ctx.log(f"(C) round trip: {len(resC)} written rules, {pc} paths over symbolic spacing / literal characters, {time.time()-t1:.1f}s")
    # native validation of (A) through the hook
    lines = [row["inp"] for r in resA for row in r["rows"] if row.get("inp")]
    reps = native.run_lines("unescape", lines) if lines else []
    k = 0; enc = []; events = []; validated = 0
    for r in resA:
        for row in r["rows"]:
            if row.get("event"): events.append(row["event"]); continue
            rep = reps[k]; k += 1
            pred = "PANIC" if row["panic"] else ("NONE" if row["impl"] is None else "SOME " + (row["impl"] or "-"))
            if rep != pred and not (rep.startswith("PANIC") and pred == "PANIC"):
                enc.append({"input": row["inp"], "pred": pred, "native": rep}); continue
            validated += 1
            if row["ref"] is None:
                continue      # not a well-formed escape sequence / scalar value: no caller passes it (the token syntax filters it; (B) checks that)
            want = "SOME " + (row["ref"] or "-")
            if rep != want and len(ctx.violations) < 10:
                pth = save_replay(ctx, f"unescape-{row['inp']}.json", {"kind": "unescape", "input": row["inp"], "want": want})
                ctx.violations.append((f"unescape({bytes.fromhex(row['inp']) if row['inp'] != '-' else b''!r}) = {rep}, reference: {want}", pth, row["inp"]))
    # (B): every 'none' is a would-be panic: confirm through the real front-end
    bad = [(r["rule"], row["inp"]) for r in resB for row in r["rows"] if row.get("unescape") == "none"]
    for r in resB:
        for row in r["rows"]:
            if row.get("event"): events.append(row["event"])
    seen = set()
    for rule, inp in bad:
        lit = bytes.fromhex(inp).decode(errors="replace")
        g = f"a = {{ {lit} }}" if rule == "string" else f"a = {{ {lit}..'z' }}"
        rep = native.run_lines("grammar", [g.encode().hex()])[0]
        if rep.startswith("ERR"): continue          # reported as a located error: that is the required behaviour
        if not rep.startswith("PANIC"):
            events.append(f"token {lit!r} accepted and unescape None, but the front-end accepts the grammar: {rep[:120]}"); continue
        what = f"grammar {g!r}: the {rule} literal is accepted by the meta-grammar but cannot be unescaped; the front-end panics: {rep[:160]}"
        hit = next((e for e in known if e.get("role") == "unescapable_literal"), None)
        if hit is not None:
            if not any(h[0] is hit for h in ctx.known_hits): ctx.known_hits.append((hit, hit["what"] + f" [witness: {g!r}]"))
        elif len(ctx.violations) < 10 and lit not in seen:
            seen.add(lit)
            pth = save_replay(ctx, f"literal-{inp}.json", {"kind": "literal", "grammar": g})
            ctx.violations.append((what, pth, g))
    ctx.log(f"native validation: {validated} unescape paths agree, {len(enc)} encoder mismatches, {len(bad)} accepted-but-unescapable literals, {len(events)} events")
    cov = {"explanation": "reduced form of C07: only the unescaping kernel and its agreement with the literal token syntax are decided; precedence/associativity, counts, PEEK indices and the round trip through concrete syntax are not (see DESIGN.md)",
           "evaluations": pa + pb + pc, "distinct_nontrivial": pa, "paths_roundtrip": pc, "roundtrip_rules": len(resC), "paths_unescape": pa, "paths_accepted_tokens": pb, "traces_validated_against_impl": validated,
           "samples": [row["inp"] for r in resA for row in r["rows"][:1] if row.get("inp")][:6] + [row["inp"] for r in resB for row in r["rows"][:1] if row.get("inp")][:4],
           "functions_encoded": sorted(set(f for r in resA + resB for f in r["fns"]))[:200],
           "bounds": f"(A) every valid UTF-8 string of 0..{N} bytes + 14 escape templates with symbolic hex digits / escape letters; (B) every text of 2..{N+1} bytes and 10 templates accepted by the checked-in meta-parser's `string` / `character` rules",
           "queries_discharged": sum(r["queries"] for r in resA + resB), "solver_time_s": round(sum(r["solver_s"] for r in resA + resB), 2), "encoder_mismatches": len(enc), "events": events[:8], "exhaustive": False}
    write_evidence(ctx, "other", cov, ["MIR of pest_meta::parser::unescape and of the checked-in meta-parser; String/Chars/take/take_while/collect/from_str_radix/char::from_u32 summarised and validated by native replay through the cfg-guarded hook verif_unescape"],
                   {"repo_hashes": repo_hashes(["meta/src/parser.rs", "meta/src/grammar.pest", "meta/src/grammar.rs"])})
    if ctx.violations: return
    if enc: raise Inconclusive(f"ENCODER-MISMATCH on {len(enc)} paths, e.g. {enc[0]}")
    if events or eventsC: raise Inconclusive(f"{len(events) + len(eventsC)} events, e.g. {(events + eventsC)[0]}")


def replay(ctx, path):
    d = json.load(open(path))
    native.build()
    if d["kind"] == "roundtrip":
        rep = native.run_lines("grammar", [d["text"]])[0]
        st = __import__("pegsym").parse_front_reply(rep)
        print(bytes.fromhex(d["text"]).decode(errors="replace")); print("read back:", st.get("ast") or st.get("error")); print("written:  ", d["want"])
        print(f"VIOLATION property=C07 replay={path}  (compare the two lines above)"); return 1
    if d["kind"] == "unescape":
        rep = native.run_lines("unescape", [d["input"]])[0]
        print(rep, "| want", d["want"])
        if rep != d["want"]:
            print(f"VIOLATION property=C07 replay={path}"); return 1
        return 0
    rep = native.run_lines("grammar", [d["grammar"].encode().hex()])[0]
    print(rep[:300])
    if rep.startswith("PANIC"):
        print(f"VIOLATION property=C07 replay={path}"); return 1
    return 0


# ================================================================== (C) the reader reconstructs the grammar that was written
# abstract expressions (same tuple forms as pegsym.parse_rules) are written in concrete syntax with only the parentheses
# that precedence requires; some separators are symbolic whitespace bytes and some literal characters are symbolic; the
# real parse + consume_rules (incl. validate_ast) are executed from MIR and the resulting ast::Rule must be the one written.
import itertools, random
PREC = {"choice": 1, "seq": 2, "pos": 3, "neg": 3}


def prec(e):
    return PREC.get(e[0], 4 if e[0] in ("opt", "rep", "rep_once", "rep_exact", "rep_min", "rep_max", "rep_min_max") else 5)


def write(e, toks):
    """append tokens (strings; a literal's content may be a list of byte values/symbols) for expression e"""
    k = e[0]
    def sub(x, minp):
        if prec(x) < minp:
            toks.append("("); write(x, toks); toks.append(")")
        else: write(x, toks)
    if k == "str": toks.append(("lit", '"', e[1]))
    elif k == "insens": toks.append("^"); toks.append(("lit", '"', e[1]))
    elif k == "range": toks.append(("lit", "'", e[1])); toks.append(".."); toks.append(("lit", "'", e[2]))
    elif k == "ident": toks.append(e[1])
    elif k == "peek_slice": toks.append("PEEK"); toks.append("["); toks += ([str(e[1])] if e[1] is not None else []) + [".."] + ([str(e[2])] if e[2] is not None else []); toks.append("]")
    elif k == "push": toks.append("PUSH"); toks.append("("); write(e[1], toks); toks.append(")")
    elif k in ("pos", "neg"): toks.append("&" if k == "pos" else "!"); sub(e[1], 3)
    elif k in ("seq", "choice"):
        sub(e[1], prec(e)); toks.append("~" if k == "seq" else "|"); sub(e[2], prec(e) + 1)
    elif k == "opt": sub(e[1], 4); toks.append("?")
    elif k == "rep": sub(e[1], 4); toks.append("*")
    elif k == "rep_once": sub(e[1], 4); toks.append("+")
    elif k == "rep_exact": sub(e[2], 4); toks += ["{", str(e[1]), "}"]
    elif k == "rep_min": sub(e[2], 4); toks += ["{", str(e[1]), ",", "}"]
    elif k == "rep_max": sub(e[2], 4); toks += ["{", ",", str(e[1]), "}"]
    elif k == "rep_min_max": sub(e[3], 4); toks += ["{", str(e[1]), ",", str(e[2]), "}"]
    else: raise ValueError(k)


NOGAP_AFTER = set()


def render(name, mod, e, holes, lead_bar=False):
    """-> list of byte values / z3 symbols; separators listed in `holes` (indices into the token gaps) are symbolic"""
    toks = [name, "="] + ([mod] if mod else []) + ["{"] + (["|"] if lead_bar else [])
    write(e, toks); toks.append("}")
    out = []; syms = []
    for i, t in enumerate(toks):
        if isinstance(t, tuple):
            out.append(ord(t[1])); out += list(t[2]); out.append(ord(t[1]))
        else:
            out += list(t.encode())
        if i + 1 < len(toks):
            # `PEEK[`, `PUSH(` and `'a'..'b'` pieces are separate tokens of non-atomic rules: whitespace is legal between them
            if i in holes:
                h = z3.BitVec(f"w{i}", 8); syms.append(h); out.append(h)
            else:
                out.append(0x20)
    return out, syms, len(toks) - 1


def ast_of(I, P, rule):
    """ast::Rule value in the executor's heap -> (name, type, expr tuple with literal contents as value lists)"""
    def s(v): return list(v.f)
    def ex(v):
        v = I.deref(v) if type(unwrap_ptr(v)) is Ptr else v
        k = v.var
        b = lambda i: ex(v.f[i])
        if k == "Str": return ("str", s(v.f[0]))
        if k == "Insens": return ("insens", s(v.f[0]))
        if k == "Range": return ("range", s(v.f[0]), s(v.f[1]))
        if k == "Ident": return ("ident", bytes(v.f[0].f).decode())
        if k == "PeekSlice":
            sg = lambda x: x - (1 << 32) if x >> 31 else x
            return ("peek_slice", sg(v.f[0]), sg(v.f[1].f[0]) if v.f[1].idx == 1 else None)
        if k == "PosPred": return ("pos", b(0))
        if k == "NegPred": return ("neg", b(0))
        if k == "Seq": return ("seq", b(0), b(1))
        if k == "Choice": return ("choice", b(0), b(1))
        if k == "Opt": return ("opt", b(0))
        if k == "Rep": return ("rep", b(0))
        if k == "RepOnce": return ("rep_once", b(0))
        if k == "RepExact": return ("rep_exact", v.f[1], b(0))
        if k == "RepMin": return ("rep_min", v.f[1], b(0))
        if k == "RepMax": return ("rep_max", v.f[1], b(0))
        if k == "RepMinMax": return ("rep_min_max", v.f[1], v.f[2], b(0))
        if k == "Push": return ("push", b(0))
        raise Unsupported("ast expr " + k)
    return (bytes(rule.f[0].f).decode(), rule.f[1].var, ex(rule.f[2]))


def same_ast(W, a, b):
    if type(a) is not type(b): return False
    if isinstance(a, tuple): return len(a) == len(b) and all(same_ast(W, x, y) for x, y in zip(a, b))
    if isinstance(a, list):
        if len(a) != len(b): return False
        for x, y in zip(a, b):
            if x is y: continue
            if is_sym(x) or is_sym(y):
                if not W.must(x == y): return False
            elif x != y: return False
        return True
    return a == b


MODNAME = {"": "Normal", "_": "Silent", "@": "Atomic", "$": "CompoundAtomic", "!": "NonAtomic"}


def explore_roundtrip(args):
    P, name, mod, e, holes, lead_bar, symlit = args
    ex = Explorer(max_steps=4_000_000)
    # literal contents: optionally make the first byte of the first literal symbolic (a printable ASCII char that needs no escape)
    lit_sym = None
    def subst(x):
        nonlocal lit_sym
        if isinstance(x, tuple):
            if x[0] in ("str", "insens") and symlit and lit_sym is None and x[1] and not isinstance(x[1], EscLit):
                lit_sym = z3.BitVec("c0", 8)
                return (x[0], [lit_sym] + list(x[1][1:]))
            return tuple(subst(y) for y in x)
        return x
    e2 = subst(e)
    text, syms, ngaps = render(name, mod, e2, holes, lead_bar)
    for h in syms: ex.add_base(z3.Or(h == 0x20, h == 0x09, h == 0x0A))
    if lit_sym is not None: ex.add_base(z3.UGE(lit_sym, 0x20), z3.ULE(lit_sym, 0x7E), lit_sym != 0x22, lit_sym != 0x5C)
    rows = []; fns = set()
    want = (name, MODNAME[mod], e2)

    def norm(x):
        if isinstance(x, tuple): return tuple(norm(y) for y in x)
        if isinstance(x, EscLit): return list(x.value)
        if isinstance(x, (bytes, bytearray)): return list(x)
        return x
    want = norm(want)

    def body(W):
        W.globals["CALL_LIMIT"] = 0; W.globals["ERROR_DETAIL"] = False
        I = Interp(P, W, S)
        inp = SliceRef(VecObj(list(text), "input"), 0, len(text), True)
        try:
            r = I.call("", "parser::parse", [I.make_adt("parser::Rule::grammar_rules", []), inp])
            if r.idx != 0: return {"res": "rejected by the meta-grammar"}
            rr = I.call("", "parser::consume_rules", [r.f[0]])
        except Panic as e_:
            return {"res": f"panic: {e_}"}
        fns.update(I.fn_used)
        if rr.idx != 0: return {"res": "consume_rules returned errors"}
        rules = rr.f[0].f
        if len(rules) != 1: return {"res": f"{len(rules)} rules read"}
        got = ast_of(I, P, rules[0])
        return {"res": "ok" if same_ast(W, got, want) else "different", "got": got}

    for W, res in ex.explore(body):
        if isinstance(res, Exception):
            rows.append({"event": f"{type(res).__name__}: {res}"}); continue
        m = W.get_model()
        t = bytes((m.eval(b, model_completion=True).as_long() if is_sym(b) else b) for b in text)
        rows.append({"text": t.hex(), "res": res["res"], "got": str(res.get("got"))[:300] if res["res"] != "ok" else None})
    return {"expr": str(e)[:200], "rows": rows, "want": str(want)[:300], "queries": ex.nqueries, "solver_s": ex.solver_time, "fns": fn_evidence(fns)}


class EscLit(bytes):
    """a literal's content as written (with escapes); `.value` is what it denotes"""
    def __new__(cls, text, value):
        o = bytes.__new__(cls, text); o.value = bytes(value); return o

    def __reduce__(self): return (EscLit, (bytes(self), self.value))


def escaped_atoms():
    E = EscLit
    return [("range", E(b"\\'", b"'"), b"~"), ("range", b"!", E(b"\\'", b"'")), ("range", E(b"\\x27", b"'"), E(b"\\u{7e}", b"~")), ("range", E(b"\\\\", b"\\"), b"z"), ("range", E(b'"', b'"'), b"z"),
            ("range", E(b"\\n", b"\n"), E(b"\\r", b"\r")), ("range", E(b"\\u{e9}", "é".encode()), E("ü".encode(), "ü".encode())),
            ("str", E(b'\\"', b'"')), ("str", E(b'\\"a\\"', b'"a"')), ("str", E(b"a\\nb\\tc", b"a\nb\tc")), ("str", E(b"\\u{e9}x", "éx".encode())), ("str", E(b"'", b"'")), ("str", E(b"\\'", b"'")), ("str", E(b"''", b"''")),
            ("str", E(b"\\\\", b"\\")), ("str", E(b"\\x41\\x7e", b"A~")), ("str", E(b"\\0", b"\0")), ("insens", E(b"\\x41b", b"Ab")), ("insens", E(b'\\"', b'"')), ("str", E(b"\\u{1F600}", "\U0001F600".encode()))]


def abstract_exprs(seed, count):
    rng = random.Random(seed)
    atoms = [("str", b"a"), ("str", b"ab"), ("insens", b"ab"), ("range", b"a", b"z"), ("ident", "b"), ("ident", "ANY"), ("peek_slice", 1, None), ("peek_slice", -2, 3), ("peek_slice", None, -1) if False else ("peek_slice", 0, 1),
             ("str", b""), ("push", ("ident", "b"))]
    out = list(atoms)
    un = lambda x: [("opt", x), ("rep", x), ("rep_once", x), ("rep_exact", 2, x), ("rep_min", 3, x), ("rep_max", 4, x), ("rep_min_max", 1, 5, x), ("pos", x), ("neg", x), ("push", x)]
    A, B, C = ("ident", "b"), ("str", b"a"), ("ident", "ANY")
    for x in (A, B): out += un(x)
    # every unary operator directly on every other kind of terminal (each terminal has its own arm in the reader)
    for x in [("peek_slice", 0, 2), ("peek_slice", 1, -1), ("peek_slice", 1, None), ("peek_slice", 0, None), ("range", b"a", b"z"), ("insens", b"ab"), ("push", ("ident", "b")), ("ident", "PEEK"), ("ident", "POP")]:
        out += un(x)[:9]
        out += [("seq", ("rep_exact", 3, x), ("opt", x)), ("neg", ("rep_min_max", 1, 2, x))]
    # every pair of operator levels, both nestings: precedence and associativity
    for k1, k2 in itertools.product(("seq", "choice"), repeat=2):
        out += [(k1, (k2, A, B), C), (k1, A, (k2, B, C))]
    for u in un(A):
        out += [("seq", u, B), ("choice", B, u), ("neg", u), ("opt", ("neg", A)), ("rep", ("pos", B))] + [w for w in un(u)[:3]]
    out += [("neg", ("seq", A, B)), ("rep", ("choice", A, B)), ("rep_exact", 2, ("seq", A, ("opt", B))), ("seq", ("neg", A), ("rep", C)), ("choice", ("seq", A, ("neg", B)), ("pos", ("rep_once", C))),
            ("push", ("seq", A, ("rep", B))), ("seq", ("insens", b"x"), ("range", b"0", b"9")), ("choice", ("choice", ("choice", A, B), C), A), ("seq", A, ("seq", B, ("seq", C, A)))]
    seen = set(); res = []
    for e in out:
        if str(e) in seen: continue
        seen.add(str(e)); res.append(e)
    rng.shuffle(res)
    # literals written with escapes / delimiters as content are part of every run (alone and under one operator)
    esc = escaped_atoms()
    return esc + [("seq", x, ("ident", "b")) for x in esc[::3]] + res[:count]


def run_roundtrip(ctx, P):
    rng = random.Random(ctx.seed)
    count = int(os.environ.get("VERIF_C07_EXPRS", "60" if ctx.quick else "400"))
    nh = 2 if ctx.quick else 3
    jobs = []
    for e in abstract_exprs(ctx.seed, count):
        toks = ["a", "=", "{"]; write(e, toks); ng = len(toks) + 0
        gaps = list(range(ng))
        for mod in (rng.choice(["", "_", "@", "$", "!"]),):
            holes = set(rng.sample(gaps, min(nh, len(gaps))))
            jobs.append((P, "a", mod, e, holes, False, True))
        jobs.append((P, "a", "", e, set(rng.sample(gaps[3:] or gaps, min(nh, len(gaps[3:] or gaps)))), e[0] == "choice", False))
    res = par.pmap(explore_roundtrip, jobs, NCPU)
    errs = [(j[3], r[1]) for j, r in zip(jobs, res) if r[0] == "err"]
    if errs: raise Inconclusive(f"round-trip exploration failed on {len(errs)} expressions, e.g. {errs[0][0]}: {errs[0][1][:1500]}")
    return [r[1] for r in res]
