"""C11 — the backtracking stack is transactional for every history (engine M on the MIR of pest/src/stack.rs)."""
import os, time, json, itertools
import z3
from common import *
import native, par
from mirsym.setup import program, fn_evidence
from mirsym.interp import Explorer, Interp, SolverUnknown
from mirsym.values import *
from mirsym.summaries import S

OPS = ["push", "pop", "peek", "snapshot", "clear_snapshot", "restore"]
TOK = {"push": "p", "pop": "o", "peek": "k", "snapshot": "s", "clear_snapshot": "c", "restore": "r"}


# ---------------------------------------------------------------- naive model (a full copy per snapshot)
class Naive:
    def __init__(self, contents=None, saved=None):
        self.c = list(contents or []); self.saved = [list(x) for x in (saved or [])]

    def apply(self, op, arg=None):
        if op == "push": self.c.append(arg); return None
        if op == "pop": return self.c.pop() if self.c else "N"
        if op == "peek": return self.c[-1] if self.c else "N"
        if op == "snapshot": self.saved.append(list(self.c)); return None
        if op == "clear_snapshot":
            if self.saved: self.saved.pop()
            return None
        if op == "restore":
            self.c = self.saved.pop() if self.saved else []
            return None


def same(W, a, b):
    """are two element values equal on every input of the path?"""
    if a is b: return True
    if is_sym(a) and is_sym(b) and a.eq(b): return True
    if not is_sym(a) and not is_sym(b): return a == b
    return W.must(a == b)


def same_list(W, xs, ys):
    return len(xs) == len(ys) and all(same(W, a, b) for a, b in zip(xs, ys))


def mir_op(I, sp, op, arg):
    if op == "push": I.call("", "Stack::push", [sp, arg]); return None
    if op == "pop":
        r = I.call("", "Stack::pop", [sp]); return r.f[0] if r.idx == 1 else "N"
    if op == "peek":
        r = I.call("", "Stack::peek", [sp]); return I.deref(r.f[0]) if r.idx == 1 else "N"
    I.call("", "Stack::" + op, [sp]); return None


def ev(m, v):
    if v is None: return "-"
    if isinstance(v, str): return v
    if is_sym(v): return str(m.eval(v, model_completion=True).as_long())
    return str(v)


# ---------------------------------------------------------------- (a) histories
def explore_histories(args):
    P, N, prefix = args
    ex = Explorer()
    sels = [z3.BitVec(f"op{k}", 8) for k in range(N)]
    vals = [z3.BitVec(f"v{k}", 8) for k in range(N)]
    for s in sels: ex.add_base(z3.ULT(s, len(OPS)))
    for k, p in enumerate(prefix): ex.add_base(sels[k] == p)
    ex.add_base(z3.Distinct(*vals))      # the stack never compares elements: distinct values lose nothing and make witnesses informative
    fns = set()
    out = {"paths": 0, "lines": [], "pred": [], "bad": [], "steps": 0}

    def body(W):
        I = Interp(P, W, S)
        st = I.call("", "Stack::new", [])
        sp = Ptr(Cell(st))
        nm = Naive()
        hist = []; obs = []
        for k in range(N):
            op = OPS[W.choose(sels[k])]
            arg = vals[k] if op == "push" else None
            hist.append((op, arg))
            try:
                r = mir_op(I, sp, op, arg)
            except Panic as e:
                return {"hist": hist, "obs": obs, "bad": f"panic in {op} (op #{k}): {e}"}
            want = nm.apply(op, arg)
            cache = st.f[0].f
            ln = I.call("", "Stack::len", [sp])
            obs.append((r, ln, list(cache)))
            if (r is None) != (want is None) or (r is not None and (isinstance(r, str) != isinstance(want, str) or (not isinstance(r, str) and not same(W, r, want)))):
                return {"hist": hist, "obs": obs, "bad": f"{op} (op #{k}) returned a different element than the naive model"}
            if ln != len(nm.c) or not same_list(W, cache, nm.c):
                return {"hist": hist, "obs": obs, "bad": f"contents differ from the naive model after {op} (op #{k})"}
            # representation invariant used by the inductive step must hold on every reachable state
            inv = rep_invariant([len(st.f[0].f), len(st.f[1].f), [(a.f[0], a.f[1]) for a in st.f[2].f]])
            if inv is not True:
                return {"hist": hist, "obs": obs, "bad": None, "inv": inv}
        fns.update(I.fn_used)
        return {"hist": hist, "obs": obs, "bad": None}

    for W, res in ex.explore(body):
        if isinstance(res, Exception):
            out["bad"].append({"line": None, "what": f"executor event outside an operation: {res}"}); continue
        m = W.get_model()
        line = " ".join(TOK[op] + (ev(m, a) if a is not None else "") for op, a in res["hist"])
        pred = " ".join(f"{ev(m, r)}:{ln}:[{','.join(ev(m, x) for x in c)}]" for r, ln, c in res["obs"])
        out["paths"] += 1; out["steps"] += W.steps
        out["lines"].append(line); out["pred"].append(pred)
        if res.get("bad"): out["bad"].append({"line": line, "what": res["bad"]})
        if res.get("inv"): out["bad"].append({"line": line, "what": "INVARIANT-TOO-STRONG " + res["inv"], "encoder": True})
    out["queries"] = ex.nqueries; out["solver_s"] = ex.solver_time
    out["fns"] = fn_evidence(fns)
    return out


# ---------------------------------------------------------------- (b) inductive step
def rep_invariant(shape):
    """shape: [len(cache), len(popped), [(l, r) ...]] concrete -> True or a string"""
    nc, npop, lens = shape
    cur = nc; tot = 0
    for l, r in reversed(lens):
        if r > l: return f"remained {r} > len {l}"
        if r > cur: return f"remained {r} > length {cur} of the newer state"
        tot += l - r; cur = l
    if tot != npop: return f"popped.len()={npop} != sum(len-remained)={tot}"
    return True


def abstraction(cache, popped, lens):
    """-> (contents, [saved copies oldest first]) from the three vectors (element values may be symbolic)"""
    cur = list(cache); rest = list(popped); saved = []
    for l, r in reversed(lens):
        k = l - r
        seg = rest[len(rest) - k:] if k else []
        rest = rest[:len(rest) - k]
        cur = cur[:r] + list(reversed(seg))
        saved.append(cur)
    return list(cache), list(reversed(saved))


def shapes(maxc, maxp, maxs):
    """every (len(cache), len(popped), lengths) satisfying the invariant within the bounds"""
    out = []
    def rec(lens, cur, tot):
        # lens built from newest to oldest; cur = length of the newer state
        if len(lens) <= maxs:
            out.append((list(reversed(lens)), tot))
        if len(lens) == maxs: return
        for l in range(0, maxc + maxp + 1):
            for r in range(0, min(l, cur) + 1):
                if tot + l - r <= maxp and l <= maxc + maxp:
                    rec(lens + [(l, r)], l, tot + l - r)
    res = []
    for nc in range(maxc + 1):
        out.clear(); rec([], nc, 0)
        for lens, tot in out:
            res.append((nc, tot, lens))
    return res


def step_chunk(args):
    P, chunk = args
    rows = []; fns = set(); nq = 0; ts = 0.0
    for (nc, npop, lens) in chunk:
        for op in OPS:
            ex = Explorer()
            cache = [z3.BitVec(f"c{i}", 8) for i in range(nc)]
            popped = [z3.BitVec(f"q{i}", 8) for i in range(npop)]
            arg = z3.BitVec("a", 8)
            ex.add_base(z3.Distinct(*(cache + popped + [arg])))

            def body(W):
                I = Interp(P, W, S)
                st = Agg([VecObj(list(cache)), VecObj(list(popped)), VecObj([Agg([l, r], "tuple") for l, r in lens])], "Stack")
                sp = Ptr(Cell(st))
                c0, s0 = abstraction(cache, popped, lens)
                nm = Naive(c0, s0)
                try:
                    r = mir_op(I, sp, op, arg if op == "push" else None)
                except Panic as e:
                    return {"bad": f"panic: {e}", "post": None, "ret": None}
                want = nm.apply(op, arg)
                post = ([*st.f[0].f], [*st.f[1].f], [(a.f[0], a.f[1]) for a in st.f[2].f])
                fns.update(I.fn_used)
                inv = rep_invariant([len(post[0]), len(post[1]), post[2]])
                if inv is not True: return {"bad": "invariant broken: " + inv, "post": post, "ret": r}
                c1, s1 = abstraction(*post)
                if (r is None) != (want is None) or (r is not None and (isinstance(r, str) != isinstance(want, str) or (not isinstance(r, str) and not same(W, r, want)))):
                    return {"bad": "returned element differs from the model", "post": post, "ret": r}
                if not same_list(W, c1, nm.c): return {"bad": "contents differ from the model", "post": post, "ret": r}
                if len(s1) != len(nm.saved) or not all(same_list(W, a, b) for a, b in zip(s1, nm.saved)):
                    return {"bad": "saved copies differ from the model (a later restore would misbehave)", "post": post, "ret": r}
                return {"bad": None, "post": post, "ret": r}

            for W, res in ex.explore(body):
                if isinstance(res, Exception):
                    res = {"bad": f"executor event: {res}", "post": None, "ret": None}
                m = W.get_model()
                j = lambda xs: ",".join(ev(m, x) for x in xs)
                line = f"{j(cache)}|{j(popped)}|{','.join(f'{l}:{r}' for l, r in lens)}|{TOK[op]}{ev(m, arg) if op == 'push' else ''}"
                pred = None
                if res["post"] is not None:
                    pc, pp, pl = res["post"]
                    pred = f"{ev(m, res['ret'])}|{j(pc)}|{j(pp)}|{','.join(f'{l}:{r}' for l, r in pl)}"
                rows.append({"line": line, "pred": pred, "bad": res["bad"]})
            nq += ex.nqueries; ts += ex.solver_time
    return {"rows": rows, "queries": nq, "solver_s": ts, "fns": fn_evidence(fns)}


# ---------------------------------------------------------------- native side
def native_history_ok(line):
    """replay a concrete history natively and compare with the naive model computed concretely -> (ok, detail)"""
    rep = native.run_lines("stack-hist", [line])[0]
    nm = Naive(); want = []
    for tok in line.split():
        op = {v: k for k, v in TOK.items()}[tok[0]]
        r = nm.apply(op, int(tok[1:]) if op == "push" else None)
        want.append(f"{'-' if r is None else r}:{len(nm.c)}:[{','.join(map(str, nm.c))}]")
    want = " ".join(want)
    return rep == want, f"native: {rep} | model: {want}"


def native_step_ok(line):
    rep = native.run_lines("stack-step", [line])[0]
    cache, popped, lens, tok = line.split("|")
    pl = lambda s: [int(x) for x in s.split(",") if x]
    lens_l = [tuple(map(int, p.split(":"))) for p in lens.split(",") if p]
    c0, s0 = abstraction(pl(cache), pl(popped), lens_l)
    nm = Naive(c0, s0)
    op = {v: k for k, v in TOK.items()}[tok[0]]
    want = nm.apply(op, int(tok[1:]) if op == "push" else None)
    if rep.startswith("PANIC"): return False, f"native: {rep}"
    ret, c, p, l = rep.split("|")
    c1, s1 = abstraction(pl(c), pl(p), [tuple(map(int, x.split(":"))) for x in l.split(",") if x])
    okk = (ret == ("-" if want is None else str(want))) and c1 == nm.c and s1 == nm.saved
    return okk, f"native: {rep} | model: ret={want} contents={nm.c} saved={nm.saved}"



def shape_of(line_or_reply_parts):
    cache, popped, lens = line_or_reply_parts
    n = lambda t: len([x for x in t.split(",") if x])
    return (n(cache), n(popped), lens)


_reach = None


def reachable_histories(maxlen=9, maxc=6):
    """BFS from Stack::new() over the six operations, executed natively through the hook: representation shape ->
    shortest history (as a stack-hist line) reaching it. Element values do not influence the shape."""
    global _reach
    if _reach is not None: return _reach
    start = ("", "", "")
    seen = {shape_of(start): ""}
    frontier = [(start, "")]
    for depth in range(maxlen):
        reqs = []; meta = []
        for (c, p, l), hist in frontier:
            for op in OPS:
                tok = TOK[op] + (str(depth + 1) if op == "push" else "")
                reqs.append(f"{c}|{p}|{l}|{tok}"); meta.append(hist + (" " if hist else "") + tok)
        reps = native.run_lines("stack-step", reqs)
        frontier = []
        for rep, hist in zip(reps, meta):
            if rep.startswith("PANIC") or rep == "NOHOOK": continue
            _, c, p, l = rep.split("|")
            sh = shape_of((c, p, l))
            if sh in seen or sh[0] > maxc: continue
            seen[sh] = hist
            frontier.append(((c, p, l), hist))
    _reach = seen
    return seen


def confirm_step(line):
    """a step counterexample counts only if its pre-state shape is reachable from Stack::new() and the resulting
    history (continued by restores and peeks so that the saved copies become observable) disagrees with the naive model
    when run natively through the public API. -> (history line or None, detail)"""
    cache, popped, lens, tok = line.split("|")
    sh = shape_of((cache, popped, lens))
    hist = reachable_histories().get(sh)
    if hist is None:
        return None, f"pre-state shape {sh} not reached by any history of <= 9 operations: treated as outside the reachable states"
    nsnap = len([x for x in lens.split(",") if x])
    tail = " ".join(["k"] + ["r k"] * (nsnap + 2))
    full = f"{hist} {tok} {tail}".strip()
    okk, detail = native_history_ok(full)
    if okk: return None, f"reachable via `{hist}` but history `{full}` agrees with the naive model"
    return full, detail


def replay(ctx, path):
    d = json.load(open(path))
    okk, detail = (native_history_ok if d["kind"] == "history" else native_step_ok)(d["line"])
    print(detail)
    if not okk:
        print(f"VIOLATION property=C11 replay={path}"); return 1
    print("replay: holds"); return 0


def run(ctx):
    P = program(("pest",))
    native.build()
    N = int(os.environ.get("VERIF_C11_N", "6" if ctx.quick else "8"))
    bounds = (4, 4, 3) if ctx.quick else (5, 5, 4)
    # ---- (a)
    k = 1 if N <= 5 else 2
    prefixes = list(itertools.product(range(len(OPS)), repeat=k))
    t0 = time.time()
    res = par.pmap(explore_histories, [(P, N, p) for p in prefixes], NCPU)
    errs = [r[1] for r in res if r[0] == "err"]
    if errs: raise Inconclusive("history exploration failed: " + errs[0])
    res = [r[1] for r in res]
    paths = sum(r["paths"] for r in res)
    ctx.log(f"(a) histories N={N}: {paths} paths, {sum(r['queries'] for r in res)} solver queries, {time.time()-t0:.1f}s")
    lines = [l for r in res for l in r["lines"]]; preds = [p for r in res for p in r["pred"]]
    reps = native.run_lines("stack-hist", lines) if lines else []
    mism = [(l, p, q) for l, p, q in zip(lines, preds, reps) if p != q and not q.startswith("PANIC") and len(q.split()) >= len(p.split()) and q.split()[:len(p.split())] != p.split()]
    bad = [b for r in res for b in r["bad"]]
    enc = [b for b in bad if b.get("encoder")]
    # ---- (b)
    sh = shapes(*bounds)
    t1 = time.time()
    chunks = [sh[i::NCPU * 4] for i in range(NCPU * 4)]
    res2 = par.pmap(step_chunk, [(P, c) for c in chunks if c], NCPU)
    errs = [r[1] for r in res2 if r[0] == "err"]
    if errs: raise Inconclusive("inductive step failed: " + errs[0])
    res2 = [r[1] for r in res2]
    rows = [x for r in res2 for x in r["rows"]]
    ctx.log(f"(b) inductive step: {len(sh)} state shapes x {len(OPS)} ops = {len(rows)} paths, {time.time()-t1:.1f}s")
    reps2 = native.run_lines("stack-step", [x["line"] for x in rows])
    mism2 = [(x["line"], x["pred"], q) for x, q in zip(rows, reps2) if x["pred"] is not None and x["pred"] != q]
    mism2 += [(x["line"], "PANIC predicted", q) for x, q in zip(rows, reps2) if x["pred"] is None and not q.startswith("PANIC")]
    # ---- verdicts
    for b in bad:
        if b.get("encoder") or b["line"] is None: continue
        if len(ctx.violations) >= 4: break
        okk, detail = native_history_ok(b["line"])
        if not okk:
            pth = save_replay(ctx, f"history-{abs(hash(b['line'])) % 10**8}.json", {"kind": "history", "line": b["line"], "what": b["what"], "detail": detail})
            ctx.violations.append((f"history `{b['line']}`: {b['what']}; {detail}", pth, b["line"]))
        else:
            enc.append({"what": "solver reported a mismatch that the native run does not show: " + b["what"], "line": b["line"]})
    unreachable = []
    for x in rows:
        if not x["bad"]: continue
        if len(ctx.violations) >= 6: break
        okk, detail = native_step_ok(x["line"])
        if okk:
            enc.append({"what": "step mismatch not reproduced natively: " + x["bad"], "line": x["line"]}); continue
        full, d2 = confirm_step(x["line"])
        if full is None:
            unreachable.append({"step": x["line"], "why": d2}); continue
        pth = save_replay(ctx, f"step-{abs(hash(x['line'])) % 10**8}.json", {"kind": "history", "line": full, "step": x["line"], "what": x["bad"], "detail": d2})
        ctx.violations.append((f"step `{x['line']}` ({x['bad']}), reached and confirmed by history `{full}`: {d2}", pth, full))
    if unreachable: ctx.notes.append({"step_counterexamples_from_unreachable_states": unreachable[:10], "count": len(unreachable)})
    fns = sorted(set(f for r in res for f in r["fns"]) | set(f for r in res2 for f in r["fns"]))
    nq = sum(r["queries"] for r in res) + sum(r["queries"] for r in res2)
    cov = {
        "states": paths + len(sh), "transitions": sum(len(l.split()) for l in lines) + len(rows),
        "traces_validated_against_impl": len(lines) + len(rows),
        "samples": lines[:3] + lines[len(lines) // 2:len(lines) // 2 + 2] + [x["line"] for x in rows[:3]],
        "exhaustive": True,
        "functions_encoded": fns,
        "bounds": f"(a) every history of exactly {N} operations from Stack::new() with symbolic selectors over {OPS} and symbolic u8 elements (shorter histories are prefixes); "
                  f"(b) one operation from every representation state with |cache|<={bounds[0]}, |popped|<={bounds[1]}, <={bounds[2]} snapshots satisfying the invariant, symbolic u8 elements",
        "paths_histories": paths, "paths_step": len(rows), "state_shapes": len(sh),
        "queries_discharged": nq, "solver_time_s": round(sum(r["solver_s"] for r in res) + sum(r["solver_s"] for r in res2), 2),
        "encoder_mismatches": len(mism) + len(mism2) + len(enc),
        "stubs": ["Vec::{new,len,is_empty,push,pop,last_mut,truncate,clear,drain,extend,index}, slice::last, Drain::rev, usize::min, mem::drop as summaries over a python list; T::clone as value copy"],
        "explanation": "states = explored histories + pre-state shapes; transitions = operations executed symbolically; every path replayed against the compiled pest::Stack<u8>",
    }
    write_evidence(ctx, "model_checking", cov,
                   ["MIR dump (nightly rustc) is what stable rustc compiles from the same source", "std summaries listed under stubs, validated by native replay of every path",
                    "element type u8; histories longer than N are covered only through the inductive step within its size bounds",
                    "representation invariant: remained<=len, remained<=length of the next newer state, popped.len()=sum(len-remained); asserted on every state reached in (a)"],
                   {"repo_hashes": repo_hashes(["pest/src/stack.rs"])})
    if ctx.violations: return
    if mism or mism2 or enc:
        ex = (mism + mism2)[:3] or enc[:3]
        raise Inconclusive(f"ENCODER-MISMATCH: {len(mism)+len(mism2)} predicted outcomes differ from the native run, {len(enc)} unreproduced reports; e.g. {ex}")
