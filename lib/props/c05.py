"""C05 — optimizer passes preserve meaning. The real passes run natively (one at a time, through the verification
hook); for every grammar of the family and every pass that changed it, z3 decides for all inputs up to N bytes that the
reference semantics of the rules before and after the pass agree (acceptance, consumed length, tokens, final stack).
The restore_on_err pass is validated against the real VM executed from MIR (its purpose is invisible to the reference)."""
import os, time, json, re
import z3
from common import *
import native, par
from mirsym.setup import program
from mirsym.interp import Explorer
from mirsym.values import *
from progsym import utf8_constraints, RefState, RefPanic
import pegsym, vmsym, gramgen
from pegsym import PegRef, NonTermination
from props import c01

AST_PASSES = ["rotate", "skip", "unroll", "concatenate", "factor", "list"]


def targeted():
    g = gramgen.grammar_text
    out = []
    for body in ['("a" ~ "b") ~ "c"', '(("a" ~ b) ~ "c") ~ "a"', '("a" | "b") | "c"', '(("a" | b) | "ab") | ANY', '("a" ~ ("b" | "c")) ~ ("a" | "b")']:
        out += [g(body), g(body, "", '"b"', "", '_{ " " }')]
    for body in ['(!"a" ~ ANY)*', '(!("a" | "b") ~ ANY)*', '(!("a" | "b" | "c") ~ ANY)* ~ "a"', '(!("ab" | "b") ~ ANY)* ~ ANY', '(!(b | "a") ~ ANY)*', '(!b ~ ANY)* ~ b',
                 '(!("" | "a") ~ ANY)*', '(!("a" | "") ~ ANY)* ~ "a"', '(!("é" | "a") ~ ANY)*']:
        out += [g(body, "@"), g(body, "@", '"b" | "ab"', ""), g(body, "@", '"b"', "@"), g(body, "")]
    for x in ['"a"', "b", '("a" | "b")']:
        for rep in ["{1}", "{2}", "{3}", "{1,}", "{2,}", "{,1}", "{,2}", "{,3}", "{1,2}", "{1,3}", "{2,3}", "{0,1}", "+", "{1,1}", "{2,2}", "{3,3}", "{0,2}"]:
            out += [g(f"{x}{rep}"), g(f"{x}{rep} ~ \"b\"", "@"), g(f"{x}{rep} ~ \"a\"", "", '"b"', "", '_{ " " }')]
    for body in ['"a" ~ "b"', '"a" ~ "b" ~ "c"', '^"a" ~ ^"b"', '"a" ~ ^"b" ~ ^"a" ~ "b"', '"a" ~ "" ~ "b"', '("a" ~ "b") | ("a" ~ "c")']:
        out += [g(body, "@"), g(body, "@", '"b"', "", '_{ " " }'), g(body, "$", '"b"', "", '_{ " " }'), g(body, "", '"b"', "", '_{ " " }')]
    for body in ['"a" ~ "b" | "a" ~ "c"', '"a" ~ "b" ~ "c" | "a" ~ "b" ~ "a" | "a"', 'b ~ "a" | b ~ "b"', 'b ~ "a" | b', 'b | b ~ "a"', '"a" | "a" ~ "b"', '("a" ~ "b") | "a"',
                 'PUSH("a") ~ "b" | PUSH("a") ~ POP', 'PUSH(ANY) ~ "b" | PUSH(ANY) ~ PEEK', '("a" ~ "b"? | "a" ~ "c") ~ "a"', '"a"? ~ "b" | "a"? ~ "c"', '&"a" ~ ANY | &"a" ~ "ab"']:
        out += [g(body), g(body, "@"), g(body, "$", '"b" ~ "a"?', ""), g(body, "", '"b"', "", '_{ " " }')]
    for body in ['("a" ~ "b")* ~ "a"', '("a" ~ b)* ~ "a"', '(b ~ "a")* ~ b', '("a" ~ "b" ~ "c")* ~ "a"', '("a" ~ "b")* ~ "b"', '(("a" | "b") ~ "c")* ~ ("a" | "b")', '("a"? ~ "b")* ~ "a"?']:
        out += [g(body), g(body, "@"), g(body, "", '"b"', "", '_{ " " }')]
    for body in ['(PUSH("a") ~ "x")? ~ (DROP | "a")', '(PUSH(ANY) ~ "b" | ANY) ~ (PEEK | ANY)', '(PUSH("a") ~ "b")* ~ (POP | "a")', '(PUSH(ANY) ~ POP ~ "x" | ANY ~ ANY) ~ DROP?', 'PUSH(ANY) ~ (POP ~ "x")? ~ DROP',
                 '(PUSH("a") | "b") ~ (POP_ALL ~ "x" | ANY*)', '!(PUSH("a")) ~ DROP | ANY', 'PUSH(ANY) ~ (DROP ~ "x" | PEEK)', '(PUSH("a") ~ PUSH("b") ~ "x")? ~ PEEK_ALL']:
        out += [g(body), g(body, "", '"b"', "", '_{ " " }')]
    for bmod in gramgen.MODS:
        for bbody in ['"a" ~ "b"', '"a" | "b"', '^"a"', '"a"+', "'a'..'b'", '"a" ~ "b" | "b"', '"ab"']:
            out += [g('(!b ~ ANY)* ~ b?', "@", bbody, bmod, '_{ " " }'), g('(!(b | "c") ~ ANY)*', "@", bbody, bmod, '_{ " " }'), g('(!b ~ ANY)*', "@", bbody, bmod)]
    # every rewrite shape under each configuration of implicit rules and each rule type
    for body in ['"a" ~ "b" | "a"', 'b ~ "a" | b', '"a" | "a" ~ "b"', '"a" ~ "b" | "a" ~ "c"', '("a" ~ "b")* ~ "a"', '(b ~ "a")* ~ b', '("a" ~ "b") ~ "c"', '"a" ~ "b" ~ "c"', '(!"b" ~ ANY)* ~ "b"', '"a"{2} ~ "b"?', '"a"{1,2} ~ "a"']:
        for ws, cm in [(None, '_{ "#" }'), ('_{ " " }', '_{ "#" }'), (None, '{ "#" ~ "#"? }'), ('{ " " }', None)]:
            for m in ["", "!", "@", "$"]:
                out.append(g(body, m, '"b"', "", ws, cm))
    # restore points: a popping operation that can fail as the bare operand of a branching construct nested in another one
    for body in ['PUSH("a") ~ ("x" | POP | "b") ~ PEEK_ALL', 'PUSH("a") ~ ("-" ~ POP?)? ~ PEEK_ALL', 'PUSH("a") ~ (POP | "b")* ~ PEEK_ALL?', 'PUSH("a") ~ ("x" | (POP_ALL | "b")) ~ PEEK_ALL',
                 'PUSH(ANY) ~ (("x" ~ "y" | POP)? ~ ANY)? ~ PEEK', 'PUSH("a") ~ (!("x" | POP) ~ ANY)* ~ PEEK_ALL', 'PUSH("a") ~ ("x" | "y" | "z" | POP | "b") ~ PEEK']:
        out += [g(body), g(body, "", '"b"', "", '_{ " " }'), g(body, "@")]
    out.append(g('PUSH("a") ~ ("x" | b | "c") ~ PEEK_ALL', "", 'POP', "_"))
    # near-miss permutations of every rewrite pattern (a pass must fire only on its own shape)
    ab = ['"a"', '"b"']
    import itertools
    for x, y, z, w in itertools.product(ab, repeat=4):
        out.append(g(f"{x} ~ {y} | {z} ~ {w}")); 
    for x, y, z in itertools.product(ab + ["b"], repeat=3):
        out += [g(f"{x} ~ {y} | {z}", "@"), g(f"{x} | {y} ~ {z}"), g(f"({x} ~ {y})* ~ {z}"), g(f"{x} ~ {y} | {z}", "$")]
    # heads that can match at the same position (one a prefix of the other, a range containing the other's first char)
    heads = ['"a"', '"ab"', "'a'..'b'", '^"A"']
    for x, z in itertools.permutations(heads, 2):
        for tail in ['"b"', "b", '"c" ~ "d"']:
            out += [g(f"{x} ~ {tail} | {z} ~ {tail}"), g(f"{x} ~ {tail} | {z} ~ {tail}", "@"), g(f"({x} ~ {tail} | {z} ~ {tail}) ~ \"c\"", "", '"b"', "", '_{ " " }')]
    for y in ["ANY", '"a"', "ASCII_DIGIT", "b"]:
        for x in ['"a"', '("a" | "b")', "b"]:
            out += [g(f"(!{x} ~ {y})*", "@"), g(f"(&{x} ~ {y})*", "@"), g(f"(!{x} ~ {y})+", "@"), g(f"({y} ~ !{x})*", "@")]
    return out


def compare_stage(args):
    """before/after rules evaluated by the reference on the same symbolic input: rows of disagreeing input classes"""
    P, before, after, start, N, use_vm = args
    if use_vm:
        r = vmsym.explore_grammar((P, after, before, start, N, {"max_steps": 200_000}))
        bad = []
        for row in r["rows"]:
            if row.get("inp") is None: bad.append({"event": row["event"]}); continue
            d = vmsym.differs(row["vm"], row["ref"])
            if d: bad.append({"inp": row["inp"], "diff": d, "after": row["vm"], "before": row["ref"]})
        return {"paths": r["paths"], "queries": r["queries"], "solver_s": r["solver_s"], "bad": bad, "fns": r["fns"]}
    paths = 0; nq = 0; ts = 0.0; bad = []
    for n in range(N + 1):
        ex = Explorer()
        bs = [z3.BitVec(f"b{i}", 8) for i in range(n)]
        ex.add_base(*utf8_constraints(bs))

        def body(W):
            out = []
            for rules in (before, after):
                rs = RefState()
                try:
                    okk = PegRef(W, list(bs), rules).call_rule(start, rs)
                    out.append(("OK" if okk else "ERR", rs))
                except RefPanic as e: out.append(("PANIC", str(e)))
                except (NonTermination, StepLimit) as e: out.append(("NONTERM", str(e)))
            return out

        for W, res in ex.explore(body):
            paths += 1
            if isinstance(res, Exception):
                bad.append({"event": f"{type(res).__name__}: {res}"}); continue
            (r1, s1), (r2, s2) = res
            m = W.get_model()
            evb = lambda x: m.eval(x, model_completion=True).as_long() if is_sym(x) else x
            def view(r, s):
                if r in ("PANIC", "NONTERM"): return {"res": r, "msg": s}
                return {"res": r, "pos": s.pos, "toks": vmsym.tok_str(s.queue), "tags": vmsym.tags_str(s.queue), "stack": ",".join(bytes(evb(x) for x in it).hex() or "-" for it in s.stack)}
            v1, v2 = view(r1, s1), view(r2, s2)
            d = vmsym.differs(v2, v1)
            if not d and r1 == "OK" and r2 == "OK":
                # stack contents: equal for every input of the class, not only the model
                for a, b in zip(s1.stack, s2.stack):
                    for x, y in zip(a, b):
                        if x is y or (not is_sym(x) and not is_sym(y)): continue
                        if W.may(x != y): d = "final stack contents differ for some input of the class"
            if d: bad.append({"inp": bytes(evb(b) for b in bs).hex() or "-", "diff": d, "before": v1, "after": v2})
        nq += ex.nqueries; ts += ex.solver_time
    return {"paths": paths, "queries": nq, "solver_s": ts, "bad": bad, "fns": []}


def confirm_native(grammar, start, inp_hex, extras):
    """the deviation must also show on the real pipeline: native VM (all passes) vs the reference on the written grammar"""
    rep = c01.native_vm([f"0 0 {inp_hex} {start} {grammar.encode().hex()}"], extras)[0]
    return c01.parse_vm_reply(rep), rep


def run(ctx):
    extras = False
    P = program(("pest", "pest_vm"))
    native.build(extras)
    known, _ = load_known("C05")
    N = int(os.environ.get("VERIF_C05_N", "3" if ctx.quick else "5"))
    count = int(os.environ.get("VERIF_C05_GRAMMARS", "1400" if ctx.quick else "3000"))
    import random
    tg = targeted(); random.Random(ctx.seed).shuffle(tg)
    gs = list(tg)           # every targeted shape is part of every run
    gs += [g for g in gramgen.family(ctx.seed, count) if g not in set(gs)][:max(count - len(gs), count // 4)]
    cross = gramgen.crossed_slice(ctx.seed, int(os.environ.get("VERIF_C05_CROSS", "250" if ctx.quick else "1500")))
    gs += [g for g in cross if g not in set(gs)]
    stages = c01.front(gs, extras)
    acc = [(g, s) for g, s in zip(gs, stages) if "error" not in s]
    jobs = []; meta = []
    unchanged = 0
    for gi, (g, s) in enumerate(acc):
        chain = ["ast"] + ["upto_" + p for p in AST_PASSES]
        for p in AST_PASSES:
            for kind, b, a in (("alone", "ast", "only_" + p), ("in-pipeline", chain[AST_PASSES.index(p)], "upto_" + p)):
                if s[b] == s[a]: unchanged += 1; continue
                if kind == "in-pipeline" and s[b] == s["ast"] and s[a] == s["only_" + p]: continue      # same pair as 'alone'
                for start in ("a", "b"):
                    jobs.append((P, s[b], s[a], start, N, False)); meta.append((gi, p, kind, start))
        if s["pre_restore"] != s["post_restore"]:
            for start in ("a", "b"):
                jobs.append((P, s["pre_restore"], s["post_restore"], start, N, True)); meta.append((gi, "restore_on_err", "vm-after", start))
        else: unchanged += 1
    t0 = time.time()
    res = par.pmap(compare_stage, jobs, NCPU)
    errs = [(acc[m[0]][0], m, r[1]) for m, r in zip(meta, res) if r[0] == "err"]
    if errs: raise Inconclusive(f"{len(errs)} comparisons failed, e.g. {errs[0][1]} on\n{errs[0][0]}\n{errs[0][2][:1500]}")
    res = [r[1] for r in res]
    paths = sum(r["paths"] for r in res)
    ctx.log(f"{len(acc)} grammars, {len(jobs)} (grammar, pass, start) comparisons where the pass changed the rules ({unchanged} unchanged), inputs 0..{N}: {paths} paths, {time.time()-t0:.1f}s")
    events = []; checked = 0
    per_pass = {}
    for (gi, p, kind, start), r in zip(meta, res):
        per_pass.setdefault(p, [0, 0]); per_pass[p][0] += 1; per_pass[p][1] += r["paths"]
        g, s = acc[gi]
        for b in r["bad"]:
            if "event" in b: events.append(f"{p} on {g!r}: {b['event']}"); continue
            checked += 1
            what = f"pass {p} ({kind}) changes the meaning of\n{g}\nstart {start}, input {b['inp']}: {b['diff']} (before: {b['before']}, after: {b['after']})"
            hit = next((e for e in known if e.get("role") == "pass:" + p and c01.side_condition(e, g)), None)
            if hit is not None:
                if not any(h[0].get("role") == hit.get("role") for h in ctx.known_hits):
                    ctx.known_hits.append((hit, hit["what"] + f" [witness: start {start}, input {b['inp']}, grammar {g!r}]"))
            elif len(ctx.violations) < 10:
                nat, rep = confirm_native(g, start, b["inp"], extras)
                pth = save_replay(ctx, f"pass-{p}-{abs(hash(g + b['inp'])) % 10**8}.json",
                                  {"grammar": g, "start": start, "input": b["inp"], "pass": p, "before": b["before"], "after": b["after"], "native_pipeline": rep})
                ctx.violations.append((what + f"; native full pipeline: {rep[:200]}", pth, g))
    samples = [{"grammar": acc[m[0]][0], "pass": m[1], "start": m[3], "paths": r["paths"]} for m, r in list(zip(meta, res))[::max(1, len(meta) // 6)][:6]]
    cov = {"programs": len(acc), "disagreements_checked": paths, "samples": samples, "exhaustive": False,
           "comparisons": len(jobs), "unchanged_stage_pairs": unchanged, "per_pass": {p: {"comparisons": v[0], "paths": v[1]} for p, v in per_pass.items()},
           "bounds": f"{len(acc)} grammars (pass-targeted shapes + seeded family, seed {ctx.seed}) x each pass alone and in pipeline position x start rules {{a,b}} x every valid UTF-8 input of 0..{N} bytes (symbolic)",
           "queries_discharged": sum(r["queries"] for r in res), "solver_time_s": round(sum(r["solver_s"] for r in res), 2),
           "functions_encoded": ["reference semantics PegRef (both sides) for rotate/skip/unroll/concatenate/factor/list; pest_vm + pest runtime MIR for the after-side of restore_on_err"] + sorted(set(f for r in res for f in r["fns"]))[:60],
           "events": events[:10],
           "explanation": "programs = grammars whose pass outputs were validated; disagreements_checked = input classes on which before/after outcomes were compared"}
    write_evidence(ctx, "translation_validation", cov,
                   ["the passes are executed natively (real code, through the cfg-guarded hook) on concrete grammars; what z3 decides is the equivalence of their input and output for all inputs up to the bound",
                    "reference semantics lib/pegsym.py; grammar family enumerated", "default features only (grammar-extras pipeline is exercised by C01)"],
                   {"repo_hashes": repo_hashes(["meta/src/optimizer/" + f for f in ("mod.rs", "rotator.rs", "skipper.rs", "unroller.rs", "concatenator.rs", "factorizer.rs", "lister.rs", "restorer.rs")])})
    if ctx.violations: return
    if events: raise Inconclusive(f"{len(events)} events, e.g. {events[0]}")


def replay(ctx, path):
    d = json.load(open(path))
    st = c01.front([d["grammar"]])[0]
    p = d["pass"]
    inp = b"" if d["input"] == "-" else bytes.fromhex(d["input"])
    if p == "restore_on_err": b, a = st["pre_restore"], st["post_restore"]
    else: b, a = st["ast"], st["only_" + p]
    o1 = pegsym.run_concrete(b, d["start"], inp); o2 = pegsym.run_concrete(a, d["start"], inp)
    print("before:", o1); print("after: ", o2)
    if not pegsym.same_outcome(o1, o2):
        print(f"VIOLATION property={ctx.prop} replay={path}"); return 1
    print("replay: pass output agrees with its input on this witness"); return 0
