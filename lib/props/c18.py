"""C18 — the bundled JSON grammar accepts exactly RFC 8259 JSON (engine M: the parser generated from
grammars/src/grammars/json.pest by the working tree's generator, executed from MIR on symbolic input, against an RFC 8259
recogniser that also yields the expected token tree)."""
import os, time, json, re
import z3
from common import *
import par
from mirsym.interp import Explorer, Interp
from mirsym.values import *
from mirsym.setup import fn_evidence
from mirsym.interp import _and, _or
from progsym import utf8_constraints
import vmsym, gensym
from props.c03 import S_STATE

JSON_PEST = os.path.join(REPO, "grammars/src/grammars/json.pest")


def json_grammar_text():
    """the grammar JsonParser is derived from: the files named by the #[grammar = ".."] attributes in front of
    `pub struct JsonParser` in grammars/src/lib.rs, concatenated in that order (what pest_derive does with several attributes)"""
    lib = open(os.path.join(REPO, "grammars/src/lib.rs")).read()
    m = re.search(r"((?:\s*#\[[^\]]*\]\s*)+)pub struct JsonParser\s*;", lib)
    files = re.findall(r'#\[grammar\s*=\s*"([^"]+)"\]', m.group(1)) if m else []
    inl = re.findall(r'#\[grammar_inline\s*=\s*"((?:[^"\\]|\\.)*)"\]', m.group(1)) if m else []
    if not files and not inl: files = ["grammars/json.pest"]
    parts = [open(os.path.join(REPO, "grammars/src", f)).read() for f in files] + [bytes(x, "utf-8").decode("unicode_escape") for x in inl]
    return re.sub(r"//[^\n]*", "", "\n".join(parts))


# ---------------------------------------------------------------- RFC 8259 recogniser over (possibly symbolic) bytes
class Reject(Exception):
    pass


class Rfc8259:
    def __init__(self, W, inp):
        self.W, self.b, self.n = W, inp, len(inp)

    def br(self, c): return self.W.branch(c) if is_sym(c) else bool(c)

    def is_(self, p, *vals):
        if p >= self.n: return False
        x = self.b[p]
        if is_sym(x): return self.br(z3.Or(*[x == v for v in vals]))
        return x in vals

    def in_range(self, p, lo, hi):
        if p >= self.n: return False
        x = self.b[p]
        if is_sym(x): return self.br(z3.And(z3.UGE(x, lo), z3.ULE(x, hi)))
        return lo <= x <= hi

    def ws(self, p):
        while self.is_(p, 0x20, 0x09, 0x0A, 0x0D): p += 1
        return p

    def text(self):
        p = self.ws(0)
        v, p = self.value(p)
        p = self.ws(p)
        if p != self.n: raise Reject()
        return ("json", 0, self.n, [v, ("EOI", self.n, self.n, [])])

    def value(self, p):
        if p >= self.n: raise Reject()
        if self.is_(p, 0x22): c, e = self.string(p)
        elif self.is_(p, 0x2D) or self.in_range(p, 0x30, 0x39): c, e = self.number(p)
        elif self.is_(p, 0x7B): c, e = self.obj(p)
        elif self.is_(p, 0x5B): c, e = self.arr(p)
        elif self.is_(p, 0x74): c, e = self.lit(p, b"true", "bool")
        elif self.is_(p, 0x66): c, e = self.lit(p, b"false", "bool")
        elif self.is_(p, 0x6E): c, e = self.lit(p, b"null", "null")
        else: raise Reject()
        return ("value", p, e, [c]), e

    def lit(self, p, word, rule):
        for i, ch in enumerate(word):
            if not self.is_(p + i, ch): raise Reject()
        return (rule, p, p + len(word), []), p + len(word)

    def string(self, p):
        q = p + 1
        while True:
            if q >= self.n: raise Reject()
            if self.is_(q, 0x22): return ("string", p, q + 1, []), q + 1
            if self.is_(q, 0x5C):
                q += 1
                if self.is_(q, 0x22, 0x5C, 0x2F, 0x62, 0x66, 0x6E, 0x72, 0x74): q += 1
                elif self.is_(q, 0x75):
                    for k in range(1, 5):
                        if not (self.in_range(q + k, 0x30, 0x39) or self.in_range(q + k, 0x41, 0x46) or self.in_range(q + k, 0x61, 0x66)): raise Reject()
                    q += 5
                else: raise Reject()
            elif self.in_range(q, 0x00, 0x1F): raise Reject()
            else: q += 1

    def digits(self, p):
        q = p
        while self.in_range(q, 0x30, 0x39): q += 1
        if q == p: raise Reject()
        return q

    def number(self, p):
        q = p
        if self.is_(q, 0x2D): q += 1
        if self.is_(q, 0x30): q += 1
        elif self.in_range(q, 0x31, 0x39): q = self.digits(q)
        else: raise Reject()
        if self.is_(q, 0x2E):
            q = self.digits(q + 1)
        if self.is_(q, 0x65, 0x45):
            q += 1
            if self.is_(q, 0x2B, 0x2D): q += 1
            q = self.digits(q)
        return ("number", p, q, []), q

    def arr(self, p):
        q = self.ws(p + 1); kids = []
        if self.is_(q, 0x5D): return ("array", p, q + 1, []), q + 1
        while True:
            v, q = self.value(q); kids.append(v)
            q = self.ws(q)
            if self.is_(q, 0x5D): return ("array", p, q + 1, kids), q + 1
            if not self.is_(q, 0x2C): raise Reject()
            q = self.ws(q + 1)

    def obj(self, p):
        q = self.ws(p + 1); kids = []
        if self.is_(q, 0x7D): return ("object", p, q + 1, []), q + 1
        while True:
            if not self.is_(q, 0x22): raise Reject()
            s, e = self.string(q)
            c = self.ws(e)
            if not self.is_(c, 0x3A): raise Reject()
            v, e2 = self.value(self.ws(c + 1))
            kids.append(("pair", q, e2, [s, v]))
            q = self.ws(e2)
            if self.is_(q, 0x7D): return ("object", p, q + 1, kids), q + 1
            if not self.is_(q, 0x2C): raise Reject()
            q = self.ws(q + 1)


def flatten(t):
    rule, s, e, kids = t
    return [f"S{rule}@{s}"] + [x for k in kids for x in flatten(k)] + [f"E{rule}@{e}"]


# ---------------------------------------------------------------- exploration
def explore(args):
    P, spec = args
    """spec: ('free', n) fully symbolic valid UTF-8 of n bytes | ('tmpl', template bytes, hole positions)"""
    ex = Explorer(max_steps=600_000)
    if spec[0] == "free":
        n = spec[1]
        bs = [z3.BitVec(f"b{i}", 8) for i in range(n)]
        ex.add_base(*utf8_constraints(bs))
        for k, (lo, hi) in enumerate(spec[2:]):      # optional partition of the leading bytes (parallelism only)
            ex.add_base(z3.UGE(bs[k], lo), z3.ULE(bs[k], hi))
    else:
        tb, holes = spec[1], spec[2]
        bs = [z3.BitVec(f"b{i}", 8) if i in holes else tb[i] for i in range(len(tb))]
        for i in holes: ex.add_base(z3.ULT(bs[i], 0x80))
        n = len(tb)
    rows = []; fns = set()

    def body(W):
        W.globals["CALL_LIMIT"] = 0; W.globals["ERROR_DETAIL"] = False
        I = Interp(P, W, S_STATE)
        inp = SliceRef(VecObj(list(bs), "input"), 0, n, True)
        out = {}
        try:
            out["r"] = I.call("", "<G0 as Parser>::parse", [I.make_adt("g0::Rule::json", []), inp]); out["I"] = I
        except Panic as e: out["panic"] = str(e)
        fns.update(I.fn_used)
        try:
            out["ref"] = ",".join(flatten(Rfc8259(W, list(bs)).text()))
        except Reject:
            out["ref"] = None
        return out

    for W, res in ex.explore(body):
        if isinstance(res, Exception):
            rows.append({"inp": None, "event": f"{type(res).__name__}: {res}"}); continue
        m = W.get_model()
        row = {"inp": bytes((m.eval(b, model_completion=True).as_long() if is_sym(b) else b) for b in bs).hex() or "-", "ref": res["ref"]}
        if "panic" in res: row["impl"] = "PANIC " + res["panic"]
        else:
            r = res["r"]; v = r.f[0]
            if r.idx == 0:
                q = vmsym.vm_queue(Agg([None, res["I"].deref(v.f[0])], "ps"))
                row["impl"] = "OK " + vmsym.tok_str(q)
            else:
                row["impl"] = f"ERR at={v.f[1].f[1]}"
        rows.append(row)
    return {"spec": str(spec)[:80], "rows": rows, "paths": len(rows), "queries": ex.nqueries, "solver_s": ex.solver_time, "fns": fn_evidence(fns)}


def templates():
    out = []
    def t(s, hole="H"):
        b = s.encode(); holes = {i for i, c in enumerate(b) if c == ord(hole)}
        out.append(("tmpl", b, holes))
    for s in ['[H,H]', '[H,[H]]', '{"a":H}', '{"H":H}', '{"a":H,"b":H}', '"aH\\HH"', '"\\uHHHH"', '"\\uH0aH"', '-H.HeH', 'HH.HH', '-HeHH', 'H.HEH', ' [H] ', '[H ,H]', '[1H2]', '{"a" H 1}', '{H}', '[[H]H',
              'trHe', 'nulH', 'falsH', 'H1', '1H', '[]H', '{}H', '"H"', '[1,H]', '[H,]', '{"a":1H}', 'H"a":1}', '["\\H"]', '-H', 'H.5', '0H', '1.H', '1eH', '[nullH', 'tHue', ' H ', '\tH\n', '[\rH]']:
        t(s)
    return out


def run(ctx):
    text = json_grammar_text()
    P, oks, d = gensym.load([text], tag="c18")
    if not oks[0]: raise Inconclusive("generator failed on json.pest")
    binary = gensym.build_native(d, tag="c18")
    N = int(os.environ.get("VERIF_C18_N", "4" if ctx.quick else "6"))
    cuts = [0x00, 0x09, 0x0e, 0x20, 0x21, 0x22, 0x23, 0x2d, 0x2e, 0x30, 0x3a, 0x5b, 0x5c, 0x66, 0x67, 0x6e, 0x6f, 0x74, 0x75, 0x7b, 0x7c, 0x100]
    parts = [(cuts[i], cuts[i + 1] - 1) for i in range(len(cuts) - 1)]
    specs = []
    for n in range(N + 1):
        if n <= 2: specs.append(("free", n))
        elif n <= 4: specs += [("free", n, p) for p in parts]
        else: specs += [("free", n, p, q) for p in parts for q in parts]
    specs = specs[::-1] + templates()
    # split the largest free length by first byte class to use the cores: not needed for quick
    t0 = time.time()
    res = par.pmap(explore, [(P, s) for s in specs], NCPU)
    errs = [(s, r[1]) for s, r in zip(specs, res) if r[0] == "err"]
    if errs: raise Inconclusive(f"executor failed on {len(errs)} specs, e.g. {errs[0][0]}: {errs[0][1][:1500]}")
    results = [r[1] for r in res]
    paths = sum(r["paths"] for r in results)
    ctx.log(f"json.pest: free inputs 0..{N} bytes ({len(specs) - len(templates())} partitions) + {len(templates())} templates: {paths} paths, {sum(r['queries'] for r in results)} queries, {time.time()-t0:.1f}s")
    reqs = []; idx = []
    for ri, r in enumerate(results):
        for wi, row in enumerate(r["rows"]):
            if row.get("inp") is None: continue
            reqs.append(f"0 json {row['inp']}"); idx.append((ri, wi))
    reps = gensym.run_native(binary, reqs) if reqs else []
    enc = []; events = []; validated = 0; accepted = 0
    for (ri, wi), rep in zip(idx, reps):
        row = results[ri]["rows"][wi]
        nat_ok = rep.startswith("OK")
        nat = ("OK " + re.match(r"OK (\S*)", rep).group(1)) if nat_ok else ("ERR at=" + re.match(r"ERR at=(\S+)", rep).group(1) if rep.startswith("ERR") else rep)
        if nat.startswith("PANIC") and row["impl"].startswith("PANIC"):
            nat = row["impl"] = "PANIC"          # the wording of a panic message is not part of the encoding
        if nat != row["impl"]:
            enc.append({"input": row["inp"], "pred": row["impl"], "native": rep}); continue
        validated += 1
        want = ("OK " + row["ref"]) if row["ref"] is not None else None
        accepted += row["ref"] is not None
        if (want is None) != (not nat_ok) or (want is not None and want != nat) or nat == "PANIC":
            what = f"input {row['inp']} ({bytes.fromhex(row['inp']) if row['inp'] != '-' else b''!r}): pest_grammars JSON -> {(rep if nat == 'PANIC' else nat)[:200]}; RFC 8259 -> {want or 'not a JSON text'}"
            if len(ctx.violations) < 10:
                pth = save_replay(ctx, f"json-{abs(hash(row['inp'])) % 10**8}.json", {"input": row["inp"], "want": want})
                ctx.violations.append((what, pth, row["inp"]))
    for r in results:
        for row in r["rows"]:
            if row.get("event"): events.append(f"{r['spec']}: {row['event']}")
    ctx.log(f"native validation: {validated} paths agree ({accepted} accepted documents), {len(enc)} encoder mismatches, {len(events)} events")
    acc_samples = [row["inp"] for r in results for row in r["rows"] if row.get("ref")][:8]
    cov = {"states": paths, "transitions": accepted, "traces_validated_against_impl": validated,
           "samples": [{"accepted_input_hex": x, "text": bytes.fromhex(x).decode(errors="replace")} for x in acc_samples] or [{"note": "no accepted document"}],
           "exhaustive": False, "functions_encoded": sorted(set(f for r in results for f in r["fns"]))[:300],
           "bounds": f"every valid UTF-8 input of 0..{N} bytes (fully symbolic) + {len(templates())} templates with 1-4 symbolic ASCII holes (arrays, objects, strings with escapes, numbers, literals, near-misses)",
           "queries_discharged": sum(r["queries"] for r in results), "solver_time_s": round(sum(r["solver_s"] for r in results), 2), "encoder_mismatches": len(enc), "events": events[:10],
           "explanation": "states = explored paths (input classes); transitions = classes accepted as JSON on which the whole token tree was compared"}
    write_evidence(ctx, "model_checking", cov,
                   ["the parser is generated from json.pest by the working tree's pest_generator (the derive macro in pest_grammars expands to the same token stream)",
                    "oracle: 120-line RFC 8259 recogniser (lib/props/c18.py) producing one pair per value/object/pair/array/string/number/bool/null plus the enclosing json pair and EOI",
                    "documents longer than the bound are covered only through the templates"],
                   {"repo_hashes": repo_hashes(["grammars/src/grammars/json.pest", "generator/src/generator.rs"])})
    if ctx.violations: return
    if enc: raise Inconclusive(f"ENCODER-MISMATCH on {len(enc)} paths, e.g. {enc[0]}")
    if events: raise Inconclusive(f"{len(events)} events, e.g. {events[0]}")


def replay(ctx, path):
    d = json.load(open(path))
    text = json_grammar_text()
    P, oks, dd = gensym.load([text], tag="c18")
    b = gensym.build_native(dd, tag="c18")
    rep = gensym.run_native(b, [f"0 json {d['input']}"])[0]
    print("native:", rep); print("RFC 8259:", d["want"])
    nat = ("OK " + re.match(r"OK (\S*)", rep).group(1)) if rep.startswith("OK") else None
    if nat != d["want"] or rep.startswith("PANIC"):
        print(f"VIOLATION property=C18 replay={path}"); return 1
    print("replay: agrees"); return 0
