"""C12 — a call limit never changes a result silently (engine M: the limit is a symbolic usize >= 1; each program runs
without a limit and with the symbolic limit on the same symbolic input inside one path)."""
from common import *
from props import c15, c03
import native

CONFIGS = [(False, 0), (False, "sym")]


def judge(tree, row, nats):
    base, lim = nats[0], nats[1]
    if lim[0]["res"] == "PANIC":
        return [] if base[0]["res"] == "PANIC" else [f"panics only under limit {row.get('L')}: {lim[0].get('msg')}"]
    if lim[1] == base[1]: return []
    if "C[call limit reached]" in lim[1]: return []
    return [f"under call limit {row.get('L')} state() returns {lim[1]} but without a limit {base[1]}"]


def replay(ctx, path):
    import json
    d = json.load(open(path))
    reps = native.run_lines("prog", d["reqs"])
    nats = {}
    for i, (rep, req) in enumerate(zip(reps, d["reqs"])):
        raw, stt = rep.split(" ## ")
        nats[i] = (c03.parse_obs(raw[4:]), c03.norm_state_reply(stt[6:]), req)
        print(req, "->", rep)
    probs = judge(None, {"L": d["reqs"][1].split(" ")[1]}, nats)
    if probs:
        print("; ".join(probs)); print(f"VIOLATION property={ctx.prop} replay={path}"); return 1
    print("replay: holds"); return 0


def run(ctx):
    c15.run(ctx, configs=CONFIGS, judge_fn=judge, what="{no limit, symbolic limit L>=1}")
