"""C03 — parser-state combinators are all-or-nothing and match exactly.
(a) primitives by engine K (Kani harnesses, with and without memchr); (b) combinator trees by engine M."""
import os, time, json, re
import z3
from common import *
import native, par, kani
from mirsym.setup import program, fn_evidence
from mirsym.interp import Explorer, Interp, SolverUnknown
from mirsym.values import *
from mirsym.summaries import S
import progsym
from progsym import ProgExec, Ref, RefState, RefPanic, observe, sexpr, utf8_constraints, gen_trees, check_layout, queue_view, stack_view


def ref_fields(ok, st, m, evb):
    q = []
    for t in st.queue:
        if t[0] == "S": q.append(f"S{t[1]}@{t[2]}")
        else: q.append(f"E{t[1]}r{t[2]}t{t[3].hex() if t[3] else '-'}@{t[4]}")
    stack = [(bytes(evb(x) for x in it).hex() or "-") for it in st.stack]
    return {"res": "OK" if ok else "ERR", "pos": str(st.pos), "q": ",".join(q), "stack": ",".join(stack), "la": str(st.la), "at": str(st.at)}


def parse_obs(s):
    """'OK pos=..;q=..' -> dict"""
    if s.startswith("PANIC"): return {"res": "PANIC", "msg": s[6:]}
    res, rest = s.split(" ", 1)
    d = {"res": res}
    for kv in rest.split(";"):
        k, v = kv.split("=", 1); d[k] = v
    return d


CMP_KEYS = ("res", "pos", "q", "stack", "la", "at")


# pest::state() is executed from its MIR; only the two constructors it ends in are stubbed (they are exercised for real
# by C04 / C10): pairs::new -> a record of its arguments, Error::new_from_pos* -> a record of variant and position
S_STATE = dict(S)
S_STATE["pairs::new"] = lambda I, queue, inp, li, start, end: Agg([queue, inp, start, end], "PairsStub")
S_STATE["error::Error::new_from_pos"] = lambda I, variant, pos: Agg([variant, pos, none()], "ErrorStub")
S_STATE["error::Error::new_from_pos_with_parsing_attempts"] = lambda I, variant, pos, att: Agg([variant, pos, some(att)], "ErrorStub")


def state_result(I, r, evb=lambda x: x):
    """result of pest::state() (Result<PairsStub, ErrorStub>) in verif-native's `state=` format (prefix only)"""
    v = r.f[0]
    if r.idx == 0:
        qv = I.deref(v.f[0])          # Rc<Vec<QueueableToken>>
        class _PS: pass
        fake = Agg([None, qv], "ps")
        q = queue_view(fake); toks = []
        for t in q[v.f[2]:v.f[3]]:
            if t[0] == "S": toks.append(f"S{q[t[1]][2]}@{t[2]}")
            else: toks.append(f"E{t[2]}@{t[4]}")
        return ("OK " + ",".join(toks)).strip()
    variant, pos = v.f[0], v.f[1]
    at = pos.f[1]
    if variant.var == "CustomError":
        msg = bytes(evb(x) for x in variant.f[0].f).decode(errors="replace")
        return f"ERR at={at} C[{msg}]"
    l = lambda vec: ",".join(str(evb(x)) for x in vec.f)
    return f"ERR at={at} P[{l(variant.f[0])}]N[{l(variant.f[1])}]"


def norm_state_reply(s):
    """native `state=` reply reduced to the fields state_result() predicts"""
    if s.startswith("OK") or s.startswith("PANIC"): return s.strip()
    m = re.match(r"ERR at=(\S+) lc=\S+ (\S+(?: limit reached\])?)", s)
    return f"ERR at={m.group(1)} {m.group(2)}"


def explore_program(args):
    """one tree, every input of length 0..N. configs: list of (detail, limit) executed one after the other on the same
    symbolic input inside one path (limit may be 'sym': a symbolic usize >= 1). Returns rows for native validation."""
    P, tree, N, configs, with_ref = args
    rows = []; fns = set(); nq = 0; st_time = 0.0; npaths = 0
    for n in range(N + 1):
        ex = Explorer(max_steps=400_000)
        bs = [z3.BitVec(f"b{i}", 8) for i in range(n)]
        ex.add_base(*utf8_constraints(bs))
        L = z3.BitVec("L", 64)
        if any(c[1] == "sym" for c in configs): ex.add_base(z3.UGE(L, 1))

        def body(W):
            outs = []
            for detail, limit in configs:
                W.globals["CALL_LIMIT"] = L if limit == "sym" else limit; W.globals["ERROR_DETAIL"] = detail
                I = Interp(P, W, S_STATE)
                inp = SliceRef(VecObj(list(bs), "input"), 0, n, True)
                pe = ProgExec(I, check_atomic=with_ref)
                out = {"I": I, "pe": pe}

                def f(I2, st, out=out, pe=pe):
                    r = pe.run(tree, st)
                    out["ok"] = r.idx == 0
                    out["ps"] = I2.clone_generic(I2.deref(r.f[0]))     # state() sorts/dedups the attempt lists afterwards
                    return r
                try:
                    out["sr"] = I.call("", "state", [inp, PyClosure(f, "program")])
                except Panic as e:
                    out["panic"] = str(e)
                fns.update(I.fn_used)
                outs.append(out)
            res = outs[0]; res["all"] = outs
            if with_ref:
                rs = RefState()
                try:
                    res["rok"] = Ref(W, list(bs)).run(tree, rs); res["rs"] = rs
                except RefPanic as e:
                    res["rpanic"] = str(e)
            return res

        for W, res in ex.explore(body):
            npaths += 1
            if isinstance(res, StepLimit):
                rows.append({"n": n, "inp": None, "event": f"step budget: {res}"}); continue
            if isinstance(res, Exception):
                rows.append({"n": n, "inp": None, "event": f"{type(res).__name__}: {res}"}); continue
            m = W.get_model()
            evb = lambda x: m.eval(x, model_completion=True).as_long() if is_sym(x) else x
            inp = bytes(evb(b) for b in bs)
            row = {"n": n, "inp": inp.hex() or "-", "atomicity": res["pe"].violations, "L": evb(L), "preds": [], "states": []}
            for o in res["all"]:
                if "panic" in o:
                    row["preds"].append("PANIC " + o["panic"]); row["states"].append("PANIC")
                else:
                    row["preds"].append(("OK " if o["ok"] else "ERR ") + observe(o["I"], o["ps"], m))
                    row["states"].append(state_result(o["I"], o["sr"], evb))
            row["pred"] = row["preds"][0]
            if len(res["all"]) > 1:
                row["cmp"] = compare_runs(W, res["all"], evb)
            if with_ref:
                if "rpanic" in res: row["ref"] = {"res": "PANIC", "msg": res["rpanic"]}
                else: row["ref"] = ref_fields(res["rok"], res["rs"], m, evb)
                if "panic" not in res and "rpanic" not in res:
                    iv = stack_view(res["I"], res["ps"]); rv = res["rs"].stack
                    if len(iv) == len(rv) and all(len(a) == len(b) for a, b in zip(iv, rv)):
                        for a, b in zip(iv, rv):
                            for x, y in zip(a, b):
                                if x is y or (not is_sym(x) and not is_sym(y)): continue
                                mm = W.model_for(x != y)
                                if mm is not None:
                                    row["inp"] = bytes(mm.eval(bb, model_completion=True).as_long() for bb in bs).hex() or "-"
                                    row["stack_sym_diff"] = True
            rows.append(row)
        nq += ex.nqueries; st_time += ex.solver_time
    return {"tree": sexpr(tree), "rows": rows, "queries": nq, "solver_s": st_time, "paths": npaths, "fns": fn_evidence(fns)}


def compare_runs(W, outs, evb):
    """structural comparison of the state() results of the runs of one path (all scalars concrete except the limit)"""
    a = outs[0]
    base = "PANIC" if "panic" in a else state_result(a["I"], a["sr"], evb)
    res = []
    for o in outs[1:]:
        res.append({"base": base, "other": "PANIC " + o["panic"] if "panic" in o else state_result(o["I"], o["sr"], evb)})
    return res


def settle_rows(ctx, results, configs, known, judge=None):
    """native validation of every path (every config) + verdicts. judge(tree, row, natives) -> list of problems (for
    the dual-run properties); the reference comparison is used when rows carry 'ref'. returns (validated, enc, events)"""
    reqs = []; idx = []
    for ri, r in enumerate(results):
        for wi, row in enumerate(r["rows"]):
            if row.get("inp") is None: continue
            for ci, (detail, limit) in enumerate(configs):
                lim = row["L"] if limit == "sym" else limit
                reqs.append(f"{1 if detail else 0} {lim} {row['inp']} {r['tree']}"); idx.append((ri, wi, ci))
    reps = native.run_lines("prog", reqs, timeout=3000) if reqs else []
    enc = []; events = []; validated = 0
    per_row = {}
    for (ri, wi, ci), rep, req in zip(idx, reps, reqs):
        r = results[ri]; row = r["rows"][wi]
        raw, stt = rep.split(" ## ")
        raw = raw[4:]; stt = stt[6:]
        nat = parse_obs(raw); pred = parse_obs(row["preds"][ci])
        agree = (nat["res"] == "PANIC" and pred["res"] == "PANIC") or nat == pred
        if agree and pred["res"] != "PANIC" and norm_state_reply(stt) != row["states"][ci]:
            agree = False; raw = raw + " ## state=" + stt
        if not agree:
            enc.append({"req": req, "pred": row["preds"][ci] + " ## " + row["states"][ci], "native": raw}); continue
        validated += 1
        per_row.setdefault((ri, wi), {})[ci] = (nat, norm_state_reply(stt), req)
    for (ri, wi), nats in per_row.items():
        if len(nats) != len(configs): continue
        r = results[ri]; row = r["rows"][wi]
        nat = nats[0][0]; req = nats[0][2]
        problems = []
        if row.get("atomicity"):
            problems += [f"{w} at {t}" for w, t in row["atomicity"]]
        ref = row.get("ref")
        if ref is not None:
            if ref["res"] == "PANIC" or nat["res"] == "PANIC":
                if ref["res"] != nat["res"]:
                    problems.append(f"reference {ref['res']} but implementation {nat['res']} ({nat.get('msg', '')})")
            else:
                diff = [k for k in CMP_KEYS if ref[k] != nat[k]]
                if diff: problems.append("outcome differs from the documented contracts in " + ",".join(f"{k}: impl={nat[k]} ref={ref[k]}" for k in diff))
        if judge is not None:
            problems += judge(r["tree"], row, nats)
            req = nats[len(configs) - 1][2]
        if problems:
            what = f"program {r['tree']} on input {row['inp']}: " + "; ".join(problems)
            hit = match_known(known, r["tree"], row, nat, ref)
            if hit is not None:
                if not any(h[0] is hit for h in ctx.known_hits):
                    ctx.known_hits.append((hit, hit["what"] + f" [witness: {r['tree']} on {row['inp']}]"))
            elif len(ctx.violations) < 8:
                pth = save_replay(ctx, f"prog-{abs(hash(req)) % 10**8}.json",
                                  {"kind": "prog", "req": req, "reqs": [nats[c][2] for c in sorted(nats)], "ref": ref, "what": what})
                ctx.violations.append((what, pth, req))
    for r in results:
        for row in r["rows"]:
            if row.get("event"): events.append(f"{r['tree']} (len {row['n']}): {row['event']}")
    return validated, enc, events


def match_known(known, tree, row, nat, ref):
    for e in known:
        role = e.get("role")
        if role == "skip_until_three_needles_third_empty":
            # the memchr arm [s1, s2, ""]: only position may differ, and only in programs with such a skip_until
            if re.search(r"\(skip_until [0-9a-f]+ [0-9a-f]+ -\)", tree):
                return e
        if role == "tag_on_pairless_expression":
            # only the frame condition on node tags is affected, and only in programs that tag an expression
            if "(tag " in tree and row.get("atomicity") and all(a[0] == "failed sequence left a node tag on an earlier pair" for a in row["atomicity"]) and all(ref[k] == nat[k] for k in CMP_KEYS if k in ref and k in nat):
                return e
    return None


def explore_peek_slice(args):
    """stack of k one-byte literals 'a','b','c' pushed, then stack_match_peek_slice(start, end, dir) with start/end
    symbolic i32 over their full range, on the fixed input "abcabc"; compared with the documented index rule."""
    P, k, has_end, top_to_bottom = args
    ex = Explorer()
    a = z3.BitVec("start", 32); b = z3.BitVec("end", 32)
    inp_b = b"abcabc"
    lits = [b"a", b"b", b"c"][:k]
    rows = []

    def body(W):
        W.globals["CALL_LIMIT"] = 0; W.globals["ERROR_DETAIL"] = False
        I = Interp(P, W, S)
        inp = SliceRef(VecObj(list(inp_b), "input"), 0, len(inp_b), True)
        pe = ProgExec(I)
        st = pe.new_state(inp)
        for l in lits: st = pe.run(("push_lit", l), st).f[0]
        end = some(b) if has_end else none()
        d = Enum("MatchDir", "TopToBottom", 1) if top_to_bottom else Enum("MatchDir", "BottomToTop", 0)
        try:
            r = pe.call("stack_match_peek_slice", [st, a, end, d])
            return ("OK" if r.idx == 0 else "ERR", I.deref(r.f[0]).f[progsym.F_POSITION].f[1])
        except Panic as e:
            return ("PANIC", str(e))

    for W, res in ex.explore(body):
        if isinstance(res, Exception): raise res
        m = W.get_model()
        sgn = lambda v: v - (1 << 32) if v >> 31 else v
        av = sgn(m.eval(a, model_completion=True).as_long()); bv = sgn(m.eval(b, model_completion=True).as_long())
        # reference on the model values (documented rule: negative indices count from the top, out of range -> no match)
        def norm(i):
            if i > k: return None
            if i >= 0: return i
            return k + i if k + i >= 0 else None
        s_, e_ = norm(av), (norm(bv) if has_end else k)
        if s_ is None or e_ is None: rr, rp = "ERR", 0
        elif e_ <= s_: rr, rp = "OK", 0
        else:
            items = lits[s_:e_]
            if top_to_bottom: items = items[::-1]
            cat = b"".join(items)
            rr, rp = ("OK", len(cat)) if inp_b.startswith(cat) else ("ERR", 0)
        tree = ("chain", [("push_lit", l) for l in lits] + [("peek_slice", av, bv if has_end else None, top_to_bottom)])
        rows.append({"req": f"0 0 {inp_b.hex()} {sexpr(tree)}", "pred_res": res[0], "pred_pos": res[1] if res[0] != "PANIC" else None,
                     "ref_res": rr, "ref_pos": rp})
    return {"rows": rows, "queries": ex.nqueries}


def replay(ctx, path):
    d = json.load(open(path))
    rep = native.run_lines("prog", [d["req"]])[0]
    raw = rep.split(" ## ")[0][4:]
    nat = parse_obs(raw); ref = d.get("ref")
    print("native:", raw); print("reference:", ref)
    bad = ref is not None and ((ref["res"] == "PANIC") != (nat["res"] == "PANIC") or (ref["res"] != "PANIC" and any(ref[k] != nat[k] for k in CMP_KEYS if k in ref)))
    if bad or ref is None:
        print(f"VIOLATION property={ctx.prop} replay={path}"); return 1
    print("replay: holds"); return 0


def run(ctx):
    check_layout(REPO)
    P = program(("pest",))
    native.build()
    known, _ = load_known("C03")
    N = int(os.environ.get("VERIF_C03_N", "4" if ctx.quick else "5"))
    count = int(os.environ.get("VERIF_C03_PROGS", "500" if ctx.quick else "3000"))
    trees = gen_trees(ctx.seed, count, 3 if ctx.quick else 4)
    t0 = time.time()
    res = par.pmap(explore_program, [(P, t, N, [(False, 0)], True) for t in trees], NCPU)
    errs = [(sexpr(t), r[1]) for t, r in zip(trees, res) if r[0] == "err"]
    if errs: raise Inconclusive(f"executor failed on {len(errs)} programs, e.g. {errs[0][0]}: {errs[0][1][:1500]}")
    results = [r[1] for r in res]
    paths = sum(r["paths"] for r in results)
    ctx.log(f"(b) {len(trees)} programs, inputs 0..{N} bytes: {paths} paths, {sum(r['queries'] for r in results)} solver queries, {time.time()-t0:.1f}s")
    validated, enc, events = settle_rows(ctx, results, [(False, 0)], known)
    ctx.log(f"native validation: {validated} paths agree, {len(enc)} encoder mismatches, {len(events)} events")
    # ---- (b2) stack_match_peek_slice with symbolic i32 indices (full width), stack of 0..3 literals
    t1 = time.time()
    ps_res = par.pmap(explore_peek_slice, [(P, k, has_end, d) for k in range(4) for has_end in (False, True) for d in (False, True)], NCPU)
    perr = [r[1] for r in ps_res if r[0] == "err"]
    if perr: raise Inconclusive("peek_slice exploration failed: " + perr[0][:1500])
    ps_rows = [x for r in ps_res for x in r[1]["rows"]]
    ps_reqs = [x["req"] for x in ps_rows]
    ps_reps = native.run_lines("prog", ps_reqs) if ps_reqs else []
    ps_bad = 0
    for x, rep in zip(ps_rows, ps_reps):
        nat = parse_obs(rep.split(" ## ")[0][4:])
        if nat.get("res") != x["pred_res"] or (nat.get("res") != "PANIC" and nat.get("pos") != str(x["pred_pos"])):
            enc.append({"req": x["req"], "pred": f"{x['pred_res']} pos={x['pred_pos']}", "native": rep}); continue
        validated += 1
        if x["ref_res"] != x["pred_res"] or x["ref_pos"] != x["pred_pos"]:
            ps_bad += 1
            if len(ctx.violations) < 8:
                pth = save_replay(ctx, f"peekslice-{abs(hash(x['req'])) % 10**8}.json",
                                  {"kind": "prog", "req": x["req"], "ref": {"res": x["ref_res"], "pos": str(x["ref_pos"])}, "what": "stack_match_peek_slice index normalisation", "partial": True})
                ctx.violations.append((f"stack_match_peek_slice: request {x['req']}: impl {x['pred_res']} pos={x['pred_pos']}, reference {x['ref_res']} pos={x['ref_pos']}", pth, x["req"]))
    ctx.log(f"(b2) peek_slice with symbolic i32 start/end: {len(ps_rows)} paths, {time.time()-t1:.1f}s")
    # ---- (a) primitives on the compiled code, with and without the memchr feature (engine K)
    kres = []
    if os.environ.get("VERIF_C03_SKIP_K") != "1":
        T = 1500 if ctx.quick else 6000
        jobs = [{"harness": "c03::" + h, "variant": v, "timeout": T} for h in ["c03_ends_3", "c03_skip_3"] + ([] if ctx.quick else ["c03_skip_4"]) for v in ("default", "nomemchr")]
        # one-needle skip_until: real memchr::memmem::find with a concrete needle; the plain loop with a symbolic needle
        jobs += [{"harness": "c03::c03_skip_until_fixed_4" if ctx.quick else "c03::c03_skip_until_fixed_6", "variant": "default", "timeout": T},
                 {"harness": "c03::c03_skip_until_1_3_2" if ctx.quick else "c03::c03_skip_until_1_4_2", "variant": "nomemchr", "timeout": T}]
        kres = kani.run_harnesses(ctx, jobs, parallel=6)
        kin = kani.settle(ctx, kres, {(j["harness"], j["variant"]): j for j in jobs})
        if kin and not ctx.violations: events += ["K: " + x for x in kin]
    fns = sorted(set(f for r in results for f in r["fns"]))
    samples = []
    for r in results[::max(1, len(results) // 6)][:6]:
        rows = [w for w in r["rows"] if w.get("inp")]
        if rows: samples.append({"program": r["tree"], "input_hex": rows[-1]["inp"], "outcome": rows[-1]["pred"][:160]})
    cov = {
        "states": paths, "transitions": sum(len(r["rows"]) for r in results), "traces_validated_against_impl": validated,
        "samples": samples, "exhaustive": False,
        "programs": len(trees), "functions_encoded": fns,
        "bounds": f"{len(trees)} program trees (all leaves, all single wraps, seeded pairs and random trees up to depth {3 if ctx.quick else 4}; seed {ctx.seed}) x every valid UTF-8 input of 0..{N} bytes (symbolic); rule ids {{1,2}}; repeat bodies restricted to non-nullable ones",
        "queries_discharged": sum(r["queries"] for r in results), "solver_time_s": round(sum(r["solver_s"] for r in results), 2),
        "encoder_mismatches": len(enc), "events": events[:10],
        "peek_slice_symbolic_paths": len(ps_rows),
        "kani_harnesses": [{"harness": r["harness"], "variant": r["variant"], "status": r["status"], "cbmc_checks": r["checks"], "cbmc_s": r["cbmc_s"]} for r in kres],
        "stubs": ["Vec/slice/str/Option/Result/Box/Rc summaries of mirsym (see lib/mirsym/summaries*.py)", "memchr::{memmem::find, memchr2_iter, memchr3_iter} by contract"],
        "explanation": "states = explored paths (input equivalence classes); exhaustive within each program and length, not over programs",
    }
    write_evidence(ctx, "model_checking", cov,
                   ["MIR dump corresponds to the compiled code", "std summaries validated by per-path native replay", "program family is enumerated/seeded, not symbolic",
                    "reference semantics in lib/progsym.py (Ref) is the executable reading of the documented contracts"],
                   {"repo_hashes": repo_hashes(["pest/src/parser_state.rs", "pest/src/position.rs", "pest/src/stack.rs"])})
    if ctx.violations: return
    if enc:
        raise Inconclusive(f"ENCODER-MISMATCH on {len(enc)} paths, e.g. {enc[0]}")
    if events:
        raise Inconclusive(f"{len(events)} executor events, e.g. {events[0]}")
