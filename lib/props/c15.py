"""C15 — detailed error tracking is observationally transparent (engine M: each program runs with the flag off and
on over the same symbolic input inside one path; z3 decides the path conditions)."""
import os, time
from common import *
import native, par
from mirsym.setup import program
import progsym
from progsym import gen_trees, check_layout, sexpr
from props import c03

CONFIGS = [(False, 0), (True, 0)]


def judge(tree, row, nats):
    """nats: config index -> (raw observation dict, normalised state() reply, request)"""
    off, on = nats[0], nats[1]
    probs = []
    if off[0]["res"] == "PANIC" and on[0]["res"] == "PANIC": return probs
    if on[0]["res"] == "PANIC": return [f"panics only with error detail on: {on[0].get('msg')}"]
    if off[0]["res"] == "PANIC": return [f"panics only with error detail off: {off[0].get('msg')}"]
    if off[1] != on[1]:
        probs.append(f"state() result differs: off={off[1]} on={on[1]}")
    for k in ("res", "pos", "q", "stack", "apos", "pa", "na"):
        if off[0][k] != on[0][k]: probs.append(f"{k} differs: off={off[0][k]} on={on[0][k]}")
    # the extra information refers to a position inside the input
    n = 0 if row["inp"] == "-" else len(row["inp"]) // 2
    dmax = on[0].get("dmax", "-")
    if dmax != "-":
        d = int(dmax)
        inp = bytes.fromhex(row["inp"]) if row["inp"] != "-" else b""
        if d > n or (d < n and (inp[d] & 0xC0) == 0x80):
            probs.append(f"max_position {d} is not a char boundary inside the input of {n} bytes")
    return probs


def replay(ctx, path):
    import json
    d = json.load(open(path))
    reps = native.run_lines("prog", d["reqs"])
    nats = {}
    for i, (rep, req) in enumerate(zip(reps, d["reqs"])):
        raw, stt = rep.split(" ## ")
        nats[i] = (c03.parse_obs(raw[4:]), c03.norm_state_reply(stt[6:]), req)
        print(req, "->", rep)
    row = {"inp": d["reqs"][0].split(" ")[2]}
    probs = judge(None, row, nats)
    if probs:
        print("; ".join(probs)); print(f"VIOLATION property={ctx.prop} replay={path}"); return 1
    print("replay: holds"); return 0


def run(ctx, configs=CONFIGS, judge_fn=None, what="error detail off/on", prop_files=("pest/src/parser_state.rs",), level_note=None):
    check_layout(REPO)
    P = program(("pest",))
    native.build()
    known, _ = load_known(ctx.prop)
    N = int(os.environ.get("VERIF_PROG_N", "3" if ctx.quick else "4"))
    count = int(os.environ.get("VERIF_PROG_COUNT", "600" if ctx.quick else "3000"))
    trees = gen_trees(ctx.seed, count, 3 if ctx.quick else 4)
    t0 = time.time()
    res = par.pmap(c03.explore_program, [(P, t, N, configs, False) for t in trees], NCPU)
    errs = [(sexpr(t), r[1]) for t, r in zip(trees, res) if r[0] == "err"]
    if errs: raise Inconclusive(f"executor failed on {len(errs)} programs, e.g. {errs[0][0]}: {errs[0][1][:1500]}")
    results = [r[1] for r in res]
    paths = sum(r["paths"] for r in results)
    ctx.log(f"{len(trees)} programs x {what}, inputs 0..{N} bytes: {paths} joint paths, {sum(r['queries'] for r in results)} solver queries, {time.time()-t0:.1f}s")
    validated, enc, events = c03.settle_rows(ctx, results, configs, known, judge=judge_fn or judge)
    ctx.log(f"native validation: {validated} runs agree, {len(enc)} encoder mismatches, {len(events)} events")
    samples = []
    for r in results[::max(1, len(results) // 6)][:6]:
        rows = [w for w in r["rows"] if w.get("inp")]
        if rows: samples.append({"program": r["tree"], "input_hex": rows[-1]["inp"], "limit": rows[-1]["L"], "state_results": rows[-1]["states"]})
    fns = sorted(set(f for r in results for f in r["fns"]))
    cov = {
        "states": paths, "transitions": sum(len(r["rows"]) for r in results) * len(configs), "traces_validated_against_impl": validated,
        "samples": samples, "exhaustive": False, "programs": len(trees), "functions_encoded": fns,
        "bounds": f"{len(trees)} program trees (seed {ctx.seed}, depth <= {3 if ctx.quick else 4}) x every valid UTF-8 input of 0..{N} bytes (symbolic) x configurations {configs}",
        "queries_discharged": sum(r["queries"] for r in results), "solver_time_s": round(sum(r["solver_s"] for r in results), 2),
        "encoder_mismatches": len(enc), "events": events[:10],
        "explanation": "states = joint paths (both configurations executed on the same symbolic input inside one path)",
    }
    write_evidence(ctx, "model_checking", cov,
                   ["MIR dump corresponds to the compiled code", "std summaries validated by per-path native replay of both configurations",
                    "program family enumerated/seeded; the tail of pest::state() (sort, dedup, choice of error variant) is re-stated in 15 lines and validated against the native state() on every path",
                    "rendering of the error / help message is outside the encoding (the native replay renders every error and reports a panic)"],
                   {"repo_hashes": repo_hashes(list(prop_files))})
    if ctx.violations: return
    if enc: raise Inconclusive(f"ENCODER-MISMATCH on {len(enc)} runs, e.g. {enc[0]}")
    if events: raise Inconclusive(f"{len(events)} executor events, e.g. {events[0]}")
