"""C02 — generated parser and interpreting VM agree (engine M: the Rust source emitted by pest_generator for each grammar
is compiled to MIR in a driver crate and executed, on the same symbolic input and inside the same path, next to the MIR
of pest_vm running the optimized rules of the same grammar; both through the real pest::state())."""
import os, time, json, re
import z3
from common import *
import native, par
from mirsym.interp import Explorer, Interp
from mirsym.values import *
from mirsym.setup import fn_evidence
from progsym import utf8_constraints, str_const
import pegsym, vmsym, gramgen, gensym
from props import c01
from props.c03 import S_STATE


def targeted(extras):
    g = gramgen.grammar_text
    out = []
    for nm in ["ASCII_DIGIT", "ASCII_ALPHA", "NEWLINE", "ASCII", "ASCII_HEX_DIGIT"]:
        out.append(f'a = {{ {nm} ~ "b" }}\nb = {{ "b" }}\n{nm} = {{ "x" }}')
        out.append(f'a = {{ {nm}+ }}\nb = {{ {nm} ~ "b" }}\n{nm} = @{{ "x" | "y" }}')
    for mod in ["", "_", "@", "$", "!"]:
        for body in ['" "', '" " | "\\t"', '" " ~ "_"?']:
            out.append(g('"a" ~ b ~ "a"', "", '"b" ~ "b"', "", f"{mod}{{ {body} }}"))
            out.append(g('"a" ~ b* ~ EOI', "", '"b"', "$", f"{mod}{{ {body} }}", f'{mod}{{ "#" ~ "b"? }}'))
            out.append(g('"a" ~ b', "@", '"b" ~ "b"', "!", None, f'{mod}{{ "#" }}'))
    for body in ['PUSH("a" | "b") ~ POP', 'PUSH(ANY) ~ PUSH(ANY) ~ POP_ALL', 'PUSH(ANY) ~ ("x" | PEEK) ~ DROP', '(PUSH("a") ~ "x")? ~ (DROP | "a")', 'PUSH(ANY) ~ PUSH(ANY) ~ PEEK[0..1] ~ PEEK[-1..]',
                 'PUSH("a") ~ (!POP ~ ANY)* ~ POP', '(PUSH(ANY) ~ POP)*', 'PUSH(ANY) ~ PEEK[..] ~ PEEK[1..] ~ PEEK[..-1]', 'PUSH(b) ~ PEEK_ALL', '!PUSH("a") ~ (DROP | ANY)', '&PUSH(ANY) ~ (PEEK | ANY)']:
        out.append(g(body)); out.append(g(body, "", '"b"', "", '_{ " " }'))
    # slices / whole-stack matches over two entries that read differently in the two directions; zero-width repetitions
    for body in ['PUSH("a") ~ PUSH("b") ~ PEEK[..]', 'PUSH(ANY) ~ PUSH(ANY) ~ PEEK[0..] ~ EOI', 'PUSH("a") ~ PUSH("b") ~ PEEK_ALL', 'PUSH(ANY) ~ PUSH(ANY) ~ PEEK[-2..]', 'PUSH(ANY) ~ PUSH(ANY) ~ PEEK[..2] ~ EOI',
                 'PUSH(ANY) ~ PUSH(ANY) ~ PEEK[1..2] ~ PEEK[0..1]', 'PUSH(ANY) ~ PUSH(ANY) ~ DROP* ~ PEEK_ALL ~ ANY', 'PUSH("a") ~ ("x" | POP | "b") ~ PEEK_ALL']:
        out.append(g(body)); out.append(g(body, "@", '"b"', "", '_{ " " }'))
    for body in ['SOI ~ "a" ~ EOI', '"a"* ~ EOI', 'ANY ~ ANY?', "'a'..'é' ~ ^\"B\"", '"é" | "e"', '!"a" ~ ANY | "a" ~ "b"', '&b ~ ANY', '(!("a" | "b") ~ ANY)* ~ "a"', '"a"{2,3} ~ b{,2}']:
        out.append(g(body)); out.append(g(body, "@", '"b"', "$", '_{ " " }')); out.append(g(body, "$", '"b" ~ "a"?', "", '{ " " }'))
    # a grammar rule named like a primitive built-in together with the composite built-ins that could be defined through it
    for prim, body in [("ASCII_DIGIT", "'0'..'7'"), ("ASCII_ALPHA_LOWER", "'a'..'f'"), ("ASCII_ALPHA_UPPER", '"A" | "B"'), ("ASCII_ALPHA", "'a'..'c'"), ("ASCII_NONZERO_DIGIT", '"1"')]:
        for pm in ["", "_", "@"]:
            out.append(f'a = {{ ASCII_ALPHANUMERIC+ }}\nb = {{ "#" ~ ASCII_HEX_DIGIT+ }}\n{prim} = {pm}{{ {body} }}')
            out.append(f'a = {{ ASCII_ALPHA ~ ASCII_DIGIT? }}\nb = {{ {prim} ~ ASCII_ALPHANUMERIC }}\n{prim} = {pm}{{ {body} }}')
    for mod in ["", "_", "@", "$", "!"]:
        for bmod in ["", "@", "$"]:
            out.append(f'a = {{ "a" ~ b ~ "a" }}\nb = {{ "b" }}\nblank = {bmod}{{ " " | "\\t" }}\nWHITESPACE = {mod}{{ blank+ }}')
            out.append(f'a = {{ "a" ~ b* }}\nb = ${{ "b" ~ "b"? }}\nhash = {bmod}{{ "#" }}\nCOMMENT = {mod}{{ hash ~ b? }}')
    if extras:
        out += gramgen.extras_systematic()
    return out


def explore_pair(args):
    """(P, module index, optimized rules, start, N): VM and generated parser on the same symbolic input in one path"""
    P, gi, vm_rules, start, N = args
    rows = []; fns = set(); nq = 0; ts = 0.0; npaths = 0
    for n in range(N + 1):
        ex = Explorer(max_steps=300_000)
        bs = [z3.BitVec(f"b{i}", 8) for i in range(n)]
        ex.add_base(*utf8_constraints(bs))

        def run_side(I, side, inp):
            try:
                if side == "vm":
                    vm = pegsym.build_vm(P, vm_rules, I)
                    return ("R", I.call("", "Vm::parse", [Ptr(Cell(vm)), str_const(start.encode()), inp]))
                rule = I.make_adt(f"g{gi}::Rule::{start}", [])
                return ("R", I.call("", f"<G{gi} as Parser>::parse", [rule, inp]))
            except Panic as e: return ("PANIC", str(e))
            except StepLimit as e: return ("NONTERM", str(e))

        def body(W):
            W.globals["CALL_LIMIT"] = 0; W.globals["ERROR_DETAIL"] = False
            out = {}
            for side in ("vm", "gen"):
                I = Interp(P, W, S_STATE)
                inp = SliceRef(VecObj(list(bs), "input"), 0, n, True)
                out[side] = (I, run_side(I, side, inp))
                fns.update(I.fn_used)
            return out

        for W, res in ex.explore(body):
            npaths += 1
            if isinstance(res, Exception):
                rows.append({"n": n, "inp": None, "event": f"{type(res).__name__}: {res}"}); continue
            m = W.get_model()
            row = {"n": n, "inp": bytes(m.eval(b, model_completion=True).as_long() for b in bs).hex() or "-"}
            for side in ("vm", "gen"):
                I, (kind, r) = res[side]
                if kind != "R": row[side] = {"res": kind, "msg": r}; continue
                v = r.f[0]
                if r.idx == 0:
                    q = vmsym.vm_queue(Agg([None, I.deref(v.f[0])], "ps"))
                    row[side] = {"res": "OK", "toks": vmsym.tok_str(q), "tags": vmsym.tags_str(q)}
                else:
                    variant, pos = v.f[0], v.f[1]
                    if variant.var == "CustomError": row[side] = {"res": "ERR", "at": pos.f[1], "var": "C[" + bytes(variant.f[0].f).decode(errors="replace") + "]"}
                    else: row[side] = {"res": "ERR", "at": pos.f[1], "var": f"P[{','.join(vmsym._nm(x) for x in variant.f[0].f)}]N[{','.join(vmsym._nm(x) for x in variant.f[1].f)}]"}
            rows.append(row)
        nq += ex.nqueries; ts += ex.solver_time
    return {"gi": gi, "start": start, "rows": rows, "paths": npaths, "queries": nq, "solver_s": ts, "fns": fn_evidence(fns)}


def same(a, b):
    if a["res"] != b["res"]: return False
    if a["res"] == "OK": return a["toks"] == b["toks"] and a["tags"] == b["tags"]
    if a["res"] == "ERR": return str(a["at"]) == str(b["at"]) and rule_sets(a["var"]) == rule_sets(b["var"])
    return True


def rule_sets(var):
    """'P[a,b]N[c]' -> (frozenset, frozenset): the statement compares the expected/unexpected rule *sets*
    (the VM orders rule names as strings, generated parsers by enum declaration order)"""
    m = re.match(r"P\[(.*)\]N\[(.*)\]$", var)
    if not m: return var
    return (frozenset(x for x in m.group(1).split(",") if x), frozenset(x for x in m.group(2).split(",") if x))


def nat_view(rep):
    d = c01.parse_vm_reply(rep)
    return d


def run_one(ctx, extras):
    known, _ = load_known("C02")
    N = int(os.environ.get("VERIF_C02_N", "3" if ctx.quick else "5"))
    count = int(os.environ.get("VERIF_C02_GRAMMARS", "300" if ctx.quick else "1200"))
    import random
    tg = targeted(extras); random.Random(ctx.seed).shuffle(tg)
    # every targeted shape is always part of the run; the seeded family fills the rest (at least a third of the budget)
    gs = tg + [g for g in gramgen.family(ctx.seed, count, extras=extras) if g not in tg][:max(count - len(tg), count // 3)]
    if not extras:
        gs += [g for g in gramgen.crossed_slice(ctx.seed, int(os.environ.get("VERIF_C02_CROSS", "80" if ctx.quick else "900"))) if g not in set(gs)]
    tgset = set(tg)
    native.build(extras)
    stages = c01.front(gs, extras)
    ok_idx = [i for i, s in enumerate(stages) if "error" not in s]
    gs = [gs[i] for i in ok_idx]; stages = [stages[i] for i in ok_idx]
    t0 = time.time()
    P, oks, d = gensym.load(gs, extras=extras, tag="c02", base_crates=("pest", "pest_vm"))
    binary = gensym.build_native(d, tag="c02", extras=extras)
    ctx.log(f"{len(gs)} grammars generated, compiled and dumped as MIR in {time.time()-t0:.1f}s ({'grammar-extras' if extras else 'default features'})")
    jobs = []
    for gi, (g, s) in enumerate(zip(gs, stages)):
        if not oks[gi]: continue
        names = [n for n, _, _ in s["optimized"]]
        for st in [n for n in ("a", "b") if n in names]:
            # two pushes followed by a read of both entries need one more input byte than the general bound
            jobs.append((P, gi, s["optimized"], st, N + 1 if (g.count("PUSH(") >= 2 and g in tgset) else N))
    t0 = time.time()
    res = par.pmap(explore_pair, jobs, NCPU)
    errs = [(gs[j[1]], r[1]) for j, r in zip(jobs, res) if r[0] == "err"]
    if errs: raise Inconclusive(f"executor failed on {len(errs)} runs, e.g.\n{errs[0][0]}\n{errs[0][1][:1500]}")
    results = [r[1] for r in res]
    paths = sum(r["paths"] for r in results)
    ctx.log(f"{len(jobs)} (grammar,start) pairs, inputs 0..{N}: {paths} joint paths, {sum(r['queries'] for r in results)} queries, {time.time()-t0:.1f}s")
    # native validation of both sides
    reqv = []; reqg = []; idx = []
    for ri, r in enumerate(results):
        ghex = gs[r["gi"]].encode().hex()
        for wi, row in enumerate(r["rows"]):
            if row.get("inp") is None: continue
            if "NONTERM" in (row["vm"]["res"], row["gen"]["res"]): continue      # would not return natively either (termination is C06's subject)
            reqv.append(f"0 0 {row['inp']} {r['start']} {ghex}"); reqg.append(f"{r['gi']} {r['start']} {row['inp']}"); idx.append((ri, wi))
    repv = c01.native_vm(reqv, extras); repg = gensym.run_native(binary, reqg) if reqg else []
    enc = []; events = []; validated = 0
    for (ri, wi), rv, rg, q1, q2 in zip(idx, repv, repg, reqv, reqg):
        r = results[ri]; row = r["rows"][wi]
        nv, ng = nat_view(rv), nat_view(rg)
        okv = row["vm"]["res"] in ("PANIC", "NONTERM") or same(row["vm"], nv)
        okg = row["gen"]["res"] in ("PANIC", "NONTERM") or same(row["gen"], ng)
        if row["vm"]["res"] == "PANIC" and nv["res"] != "PANIC": okv = False
        if row["gen"]["res"] == "PANIC" and ng["res"] != "PANIC": okg = False
        if not (okv and okg):
            enc.append({"grammar": gs[r["gi"]], "input": row["inp"], "pred_vm": row["vm"], "native_vm": rv, "pred_gen": row["gen"], "native_gen": rg}); continue
        validated += 2
        if not same(row["vm"], row["gen"]) and not same(nv, ng):
            g = gs[r["gi"]]
            what = f"grammar:\n{g}\nstart {r['start']}, input {row['inp']}: VM -> {rv[:160]} | generated -> {rg[:160]}"
            hit = match_known(known, g, row)
            if hit is not None:
                if not any(h[0].get("role") == hit.get("role") for h in ctx.known_hits):
                    ctx.known_hits.append((hit, hit["what"] + f" [witness: start {r['start']}, input {row['inp']}, grammar {g!r}]"))
            elif len(ctx.violations) < 10:
                pth = save_replay(ctx, f"diverge-{abs(hash(g + row['inp'])) % 10**8}.json", {"grammar": g, "start": r["start"], "input": row["inp"], "extras": extras, "vm": rv, "gen": rg})
                ctx.violations.append((what, pth, g))
    for r in results:
        for row in r["rows"]:
            if row.get("event"): events.append(f"{gs[r['gi']]!r} start {r['start']}: {row['event']}")
    ctx.log(f"native validation: {validated} runs agree, {len(enc)} encoder mismatches, {len(events)} events")
    samples = [{"grammar": gs[r["gi"]][:200], "start": r["start"], "input_hex": r["rows"][-1].get("inp"), "vm": r["rows"][-1].get("vm"), "generated": r["rows"][-1].get("gen")} for r in results[::max(1, len(results) // 5)][:5] if r["rows"]]
    cov = {"programs": len(gs), "disagreements_checked": paths, "samples": samples, "traces_validated_against_impl": validated, "exhaustive": False,
           "functions_encoded": sorted(set(f for r in results for f in r["fns"]))[:400],
           "bounds": f"{len(gs)} grammars (divergence-targeted shapes + seeded family, seed {ctx.seed}; {'grammar-extras' if extras else 'default features'}) x start rules {{a,b}} x every valid UTF-8 input of 0..{N} bytes (symbolic)",
           "paths": paths, "queries_discharged": sum(r["queries"] for r in results), "solver_time_s": round(sum(r["solver_s"] for r in results), 2), "encoder_mismatches": len(enc), "events": events[:10],
           "explanation": "programs = grammars for which generator output and VM were both executed from MIR; disagreements_checked = joint paths compared"}
    return cov, enc, events


def match_known(known, g, row):
    for e in known:
        if e.get("pattern") and re.search(e["pattern"], g, re.S):
            if e.get("tags_only"):
                a, b = row["vm"], row["gen"]
                if not (a["res"] == "OK" and b["res"] == "OK" and a["toks"] == b["toks"]): continue
            return e
    return None


def run(ctx):
    variants = [False] if ctx.quick and os.environ.get("VERIF_C02_EXTRAS") != "1" else [False, True]
    covs = []; enc = []; events = []
    for ex in variants:
        c, e, ev = run_one(ctx, ex)
        covs.append(c); enc += e; events += ev
    cov = dict(covs[0])
    for c in covs[1:]:
        for k in ("programs", "disagreements_checked", "traces_validated_against_impl", "paths", "queries_discharged", "solver_time_s", "encoder_mismatches"):
            cov[k] = cov[k] + c[k]
        cov["samples"] = cov["samples"] + c["samples"][:2]; cov["bounds"] += " || " + c["bounds"]
    write_evidence(ctx, "translation_validation", cov,
                   ["generated code is obtained as text from pest_generator::derive_parser (the token stream #[derive(Parser)] would compile) and compiled in a driver crate; its MIR and the MIR of pest_vm are executed on the same symbolic input",
                    "pairs::new / Error::new_from_pos replaced by records of their arguments; every path replayed on both compiled back-ends", "Unicode property rules are not in the family (ucd-trie tables are not encoded)"],
                   {"repo_hashes": repo_hashes(["generator/src/generator.rs", "vm/src/lib.rs", "pest/src/parser_state.rs"])})
    if ctx.violations: return
    if enc: raise Inconclusive(f"ENCODER-MISMATCH on {len(enc)} paths, e.g. {enc[0]}")
    if events: raise Inconclusive(f"{len(events)} events, e.g. {events[0]}")


def replay(ctx, path):
    d = json.load(open(path))
    ex = d.get("extras", False)
    native.build(ex)
    rv = c01.native_vm([f"0 0 {d['input']} {d['start']} {d['grammar'].encode().hex()}"], ex)[0]
    P, oks, dd = gensym.load([d["grammar"]], extras=ex, tag="c02replay")
    b = gensym.build_native(dd, tag="c02replay", extras=ex)
    rg = gensym.run_native(b, [f"0 {d['start']} {d['input']}"])[0]
    print("VM:       ", rv); print("generated:", rg)
    if not same(nat_view(rv), nat_view(rg)):
        print(f"VIOLATION property=C02 replay={path}"); return 1
    print("replay: back-ends agree"); return 0
