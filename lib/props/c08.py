"""C08 — failure reports point at the furthest failure with sound expectations (engine M: Vm::parse executed from MIR
through the real pest::state(); the reference semantics logs every rule attempt and the report is checked against it)."""
import os, time, json, re
from common import *
import native, par
from mirsym.setup import program
import pegsym, vmsym, gramgen
from props import c01

REPORTING = open(os.path.join(REPO, "derive/tests/reporting.pest")).read() if os.path.exists(os.path.join(REPO, "derive/tests/reporting.pest")) else ""


def reporting_shapes():
    """several attempts at one position, mixing negated and plain rule references, nested in failing rules"""
    out = []
    defs = 'b = { "q" }\nc = { "q" ~ "r"? }\nd = { !b ~ "x" | c ~ "y" }'
    for body in ['!b ~ "x" | !c ~ "y"', '!b ~ "x" | c', '&b ~ "x" | !c ~ "y"', '(!b | c) ~ "x"', '!(b | c) ~ ANY', '!b ~ !c ~ "x"', 'b | c | !b ~ "x"', 'd | "z"', '!d ~ ANY | b ~ "x"',
                 '(b | c) ~ "x" | b ~ "y"', '!b ~ "x" | d', '&(!b ~ ANY) ~ c', '!(!b ~ "x") ~ c ~ "y"', 'b? ~ !c ~ "x"', '(!b ~ ANY)* ~ c ~ "z"']:
        for mod in ("", "_", "@", "$"):
            out.append(f"a = {mod}{{ {body} }}\n{defs}")
    return out


def judge(vm, rlog):
    """vm: {'at','P','N'} ; rlog: [(rule, start, ok, reportable, la)] -> list of problems (soundness conditions of the statement)"""
    probs = []
    cand = [a for a in rlog if a[3] and ((not a[2] and a[4] != 1) or (a[2] and a[4] == 1))]
    want_pos = max([a[1] for a in cand], default=0)
    if vm["at"] != want_pos:
        probs.append(f"reported position {vm['at']} but the furthest reportable failed attempt is at {want_pos}")
    failed_at = {a[0] for a in rlog if a[3] and not a[2] and a[4] != 1 and a[1] == vm["at"]}
    negmatch_at = {a[0] for a in rlog if a[3] and a[2] and a[4] == 1 and a[1] == vm["at"]}
    for r in vm["P"]:
        if r not in failed_at: probs.append(f"expected rule {r} was not tried and failed at {vm['at']}")
    for r in vm["N"]:
        if r not in negmatch_at: probs.append(f"unexpected rule {r} did not match under negation at {vm['at']}")
    for name, lst in (("positives", vm["P"]), ("negatives", vm["N"])):
        if lst != sorted(set(lst)): probs.append(f"{name} not sorted / de-duplicated: {lst}")
    if cand and not vm["P"] and not vm["N"]:
        probs.append("there are reportable failed attempts but both lists are empty")
    return probs


def run(ctx):
    P = program(("pest", "pest_vm"))
    native.build()
    known, _ = load_known("C08")
    N = int(os.environ.get("VERIF_C08_N", "3" if ctx.quick else "5"))
    count = int(os.environ.get("VERIF_C08_GRAMMARS", "120" if ctx.quick else "1000"))
    gs = reporting_shapes() + gramgen.family(ctx.seed, count)
    gs += [g for g in gramgen.crossed_slice(ctx.seed, int(os.environ.get("VERIF_C08_CROSS", "60" if ctx.quick else "600"))) if g not in set(gs)]
    starts = {g: ["a", "b"] for g in gs}
    if REPORTING:
        rep = re.sub(r"//[^\n]*", "", REPORTING).strip()
        gs = [rep] + gs
        starts[rep] = ["choices", "choices_no_progress", "choices_a_progress", "choices_b_progress", "level1", "negative", "negative_match", "mixed", "mixed_progress"]
    stages = c01.front(gs)
    acc = [(g, s) for g, s in zip(gs, stages) if "error" not in s]
    jobs = [(gi, st, 0) for gi, (g, s) in enumerate(acc) for st in starts[g]]
    # the same report is owed when detailed error tracking (pest::set_error_detail) is on: reporting.pest and the reporting shapes again
    shapes = set(reporting_shapes())
    jobs += [(gi, st, 1) for gi, (g, s) in enumerate(acc) if g in shapes or (REPORTING and gi == 0) for st in starts[g]]
    t0 = time.time()
    res = par.pmap(vmsym.explore_grammar, [(P, acc[gi][1]["optimized"], acc[gi][1]["optimized"], st, N, {"max_steps": 200_000, "via_state": True, "attempts": True, "error_detail": bool(det)}) for gi, st, det in jobs], NCPU)
    errs = [(acc[j[0]][0], r[1]) for j, r in zip(jobs, res) if r[0] == "err"]
    if errs: raise Inconclusive(f"executor failed on {len(errs)} runs, e.g.\n{errs[0][0]}\n{errs[0][1][:1500]}")
    results = [r[1] for r in res]
    paths = sum(r["paths"] for r in results)
    ctx.log(f"{len(acc)} grammars, {len(jobs)} (grammar,start) runs through Vm::parse/state(), inputs 0..{N}: {paths} paths, {time.time()-t0:.1f}s")
    reqs = []; idx = []
    for ji, ((gi, st, det), r) in enumerate(zip(jobs, results)):
        ghex = acc[gi][0].encode().hex()
        for wi, row in enumerate(r["rows"]):
            if row.get("inp") is None or row["vm"]["res"] in ("NONTERM",): continue
            reqs.append(f"{det} 0 {row['inp']} {st} {ghex}"); idx.append((ji, wi))
    reps = c01.native_vm(reqs)
    enc = []; events = []; validated = 0; failing = 0
    for (ji, wi), rep, req in zip(idx, reps, reqs):
        gi, st, det = jobs[ji]; row = results[ji]["rows"][wi]; vm = row["vm"]
        nat = c01.parse_vm_reply(rep)
        if vm["res"] == "ERR" and "P" in vm:
            pred = f"P[{','.join(vm['P'])}]N[{','.join(vm['N'])}]"
            agree = nat["res"] == "ERR" and nat["at"] == str(vm["at"]) and nat["var"] == pred
        else:
            agree = nat["res"] == vm["res"] and (nat["res"] != "OK" or nat["toks"] == vm["toks"])
        if not agree:
            enc.append({"grammar": acc[gi][0], "req": req, "pred": vm, "native": rep}); continue
        validated += 1
        if vm["res"] != "ERR" or "P" not in vm or row["ref"]["res"] in ("PANIC", "NONTERM"): continue
        failing += 1
        probs = judge(vm, row.get("rlog") or [])
        rr = row.get("rreport")
        if rr is not None and (vm["at"], sorted(set(vm["P"])), sorted(set(vm["N"]))) != (rr[0], rr[1], rr[2]):
            probs.append(f"the statement's reporting rule prescribes position {rr[0]}, expected {rr[1]}, unexpected {rr[2]}")
        if row["ref"]["res"] != "ERR": probs.append("reference accepts although the VM fails (C01)") if False else None
        if probs:
            g = acc[gi][0]
            what = f"grammar:\n{g}\nstart {st}, input {row['inp']}{' (error detail on)' if det else ''}: error at {vm['at']} P{vm['P']} N{vm['N']}: " + "; ".join(p for p in probs if p)
            if len(ctx.violations) < 10:
                pth = save_replay(ctx, f"report-{abs(hash(req)) % 10**8}.json", {"req": req, "grammar": g, "start": st, "input": row["inp"], "rlog": row.get("rlog"), "what": what})
                ctx.violations.append((what, pth, req))
    for (gi, st, det), r in zip(jobs, results):
        for row in r["rows"]:
            if row.get("event"): events.append(f"{acc[gi][0]!r} start {st}: {row['event']}")
    ctx.log(f"native validation: {validated} paths agree ({failing} failing parses judged), {len(enc)} encoder mismatches, {len(events)} events")
    fns = sorted(set(f for r in results for f in r["fns"]))
    samples = []
    for (gi, st, det), r in list(zip(jobs, results))[::max(1, len(jobs) // 6)][:6]:
        fr = [w for w in r["rows"] if w.get("vm", {}).get("res") == "ERR"]
        if fr: samples.append({"grammar": acc[gi][0][:200], "start": st, "input_hex": fr[-1]["inp"], "report": fr[-1]["vm"]})
    cov = {"states": paths, "transitions": failing, "traces_validated_against_impl": validated, "samples": samples or [{"note": "no failing parse sampled"}], "exhaustive": False,
           "programs": len(acc), "functions_encoded": fns,
           "bounds": f"{len(acc)} grammars (derive/tests/reporting.pest with its nine start rules + seeded family, seed {ctx.seed}) x every valid UTF-8 input of 0..{N} bytes (symbolic); reporting.pest and the reporting shapes also with pest::set_error_detail(true)",
           "queries_discharged": sum(r["queries"] for r in results), "solver_time_s": round(sum(r["solver_s"] for r in results), 2), "encoder_mismatches": len(enc), "events": events[:10],
           "explanation": "states = explored paths; transitions = failing parses whose report was judged against the reference attempt log"}
    write_evidence(ctx, "model_checking", cov,
                   ["VM back-end only (the generated back-end is tied to it by C02)", "oracle: soundness conditions of the statement evaluated on the attempt log of the reference semantics (position = furthest reportable failed attempt; listed rules were tried there; sorted, no duplicates; lists not both empty when there was a reportable failure); the exact replacement rule for nested attempts is not re-derived",
                    "pairs::new and Error::new_from_pos replaced by records of their arguments inside state()"],
                   {"repo_hashes": repo_hashes(["pest/src/parser_state.rs", "vm/src/lib.rs", "pest/src/error.rs"])})
    if ctx.violations: return
    if enc: raise Inconclusive(f"ENCODER-MISMATCH on {len(enc)} paths, e.g. {enc[0]}")
    if events: raise Inconclusive(f"{len(events)} events, e.g. {events[0]}")


def replay(ctx, path):
    d = json.load(open(path))
    rep = c01.native_vm([d["req"]])[0]
    nat = c01.parse_vm_reply(rep)
    print("native:", rep)
    if nat["res"] != "ERR":
        print("parse does not fail any more"); return 0
    m = re.match(r"P\[(.*)\]N\[(.*)\]", nat["var"])
    vm = {"at": int(nat["at"]), "P": [x for x in m.group(1).split(",") if x], "N": [x for x in m.group(2).split(",") if x]}
    probs = judge(vm, [tuple(x) for x in d.get("rlog") or []])
    if probs:
        print("; ".join(probs)); print(f"VIOLATION property=C08 replay={path}"); return 1
    print("replay: report is sound"); return 0
