"""C10 — line/column arithmetic (allocation-free part by engine K; allocating part by engine M when available)."""
import os
from common import *
import kani

FUNCS = ["position_new", "line_col", "line_of", "span_new", "span_get", "lines_span", "merge"]


def kani_jobs(ctx):
    n = int(os.environ.get("VERIF_C10_N", "4" if ctx.quick else "6"))
    jobs = [{"harness": f"c10::c10_{f}_{n}", "timeout": 1700 if ctx.quick else 7000} for f in FUNCS if f != "lines_span"]
    if not ctx.quick:
        # the full lines_span() walk is the expensive one under CBMC (16 min at N=3); engine M covers it at larger N
        jobs.append({"harness": "c10::c10_lines_span_3", "timeout": 3000})
    return n, jobs


def run(ctx):
    n, jobs = kani_jobs(ctx)
    results = kani.run_harnesses(ctx, jobs)
    byh = {(j["harness"], j.get("variant", "default")): j for j in jobs}
    inconcl = kani.settle(ctx, results, byh)
    cov = {
        "states": sum(256 ** k for k in range(n + 1)),
        "transitions": sum(r["checks"] for r in results),
        "traces_validated_against_impl": 0,
        "samples": [{"harness": r["harness"], "status": r["status"], "cbmc_checks": r["checks"], "cbmc_s": r["cbmc_s"]} for r in results],
        "exhaustive": all(r["status"] == "pass" for r in results),
        "functions_encoded": ["pest::Position::{new,line_col,line_of,find_line_start,find_line_end,pos}",
                              "pest::Span::{new,get,start,end,as_str,split,start_pos,end_pos,lines_span}", "LinesSpan::next", "pest::merge_spans",
                              "core::str::{from_utf8, get, chars, char_indices, is_char_boundary} (compiled, no stub)"],
        "bounds": f"input: every byte string of length <= {n} that is valid UTF-8 (validity decided by the real core::str::from_utf8 inside the harness); offsets: any usize; unwinding assertions on",
        "queries_discharged": sum(r["checks"] for r in results if r["status"] == "pass"),
        "solver_time_s": sum((r["cbmc_s"] or 0) for r in results),
        "explanation": "states = byte strings of length <= N before the UTF-8 assumption (symbolic, not enumerated); transitions = CBMC checks discharged",
    }
    write_evidence(ctx, "model_checking", cov,
                   ["Kani/CBMC translation faithful", f"strings longer than {n} bytes are outside the claim",
                    "lines()/lines_span() 'overlap' is read as: non-empty input lines [ls,le) with ls <= span.end and le > span.start",
                    "LineIndex, Pair::line_col, Error line/col and rendering are not covered by the K harnesses"],
                   {"repo_hashes": repo_hashes(["pest/src/position.rs", "pest/src/span.rs"])})
    if inconcl:
        raise Inconclusive("; ".join(inconcl))
