"""C10 — line/column arithmetic (allocation-free part by engine K; allocating part by engine M when available)."""
import os
from common import *
import kani

FUNCS = ["position_new", "line_col", "line_of", "span_new", "span_get", "lines_span", "merge"]


def kani_jobs(ctx):
    n = int(os.environ.get("VERIF_C10_N", "4" if ctx.quick else "6"))
    jobs = [{"harness": f"c10::c10_{f}_{n}", "timeout": 1700 if ctx.quick else 7000} for f in FUNCS if f != "lines_span"]
    if not ctx.quick:
        # the full lines_span() walk is the expensive one under CBMC (16 min at N=3); engine M covers it at larger N
        jobs.append({"harness": "c10::c10_lines_span_3", "timeout": 3000})
    return n, jobs


def explore_line_index(args):
    """engine M: LineIndex::new(text) + LineIndex::line_col(text, pos) and Position::line_col for every valid UTF-8 text of
    n bytes (symbolic) and every char-boundary offset, against the newline / character count"""
    import z3
    from mirsym.interp import Explorer, Interp
    from mirsym.values import SliceRef, VecObj, Ptr, Cell, is_sym, Panic
    from mirsym.summaries import S
    from mirsym.setup import fn_evidence
    from progsym import utf8_constraints
    P, n = args
    ex = Explorer(max_steps=400_000)
    bs = [z3.BitVec(f"b{i}", 8) for i in range(n)]
    ex.add_base(*utf8_constraints(bs))
    rows = []; fns = set()

    def body(W):
        I = Interp(P, W, S)
        text = SliceRef(VecObj(list(bs), "input"), 0, n, True)
        li = I.call("", "LineIndex::new", [text])
        out = []
        line, col = 1, 1
        for pos in range(n + 1):
            # reference: count while walking (forks on newline / continuation byte exactly like the text dictates)
            if pos > 0:
                b = bs[pos - 1]
                if W.branch(b == 10): line, col = line + 1, 1
                elif not W.branch(z3.And(z3.UGE(b, 0x80), z3.ULT(b, 0xC0))): col += 1
            isb = True if pos == n else not W.branch(z3.And(z3.UGE(bs[pos], 0x80), z3.ULT(bs[pos], 0xC0)))
            if not isb: continue
            try:
                f_lc = P.lookup("LineIndex::line_col")          # an internal function: follow its parameter list (with / without the text)
                lc = I.call("", "LineIndex::line_col", [Ptr(Cell(li)), text, pos] if f_lc is None or len(f_lc.args) >= 3 else [Ptr(Cell(li)), pos])
                p = I.call("", "Position::new", [text, pos])
                plc = I.call("", "Position::line_col", [Ptr(Cell(p.f[0]))]) if p.idx == 1 else None
                out.append((pos, tuple(lc.f), tuple(plc.f) if plc is not None else None, (line, col)))
            except Panic as e:
                out.append((pos, "PANIC " + str(e), None, (line, col)))
        fns.update(I.fn_used)
        return out

    for W, res in ex.explore(body):
        if isinstance(res, Exception):
            rows.append({"event": f"{type(res).__name__}: {res}"}); continue
        m = W.get_model()
        txt = bytes(m.eval(b, model_completion=True).as_long() for b in bs)
        bad = [r for r in res if r[1] != r[3] or r[2] != r[3]]
        rows.append({"text": txt.hex() or "-", "bad": bad[:2], "n": len(res)})
    return {"rows": rows, "queries": ex.nqueries, "solver_s": ex.solver_time, "fns": fn_evidence(fns)}


def run(ctx):
    n, jobs = kani_jobs(ctx)
    # ---- engine M: LineIndex (what Pair::line_col uses) and Position::line_col agree with the character count
    from mirsym.setup import program
    import par
    P = program(("pest",))
    NM = int(os.environ.get("VERIF_C10_M_N", "5" if ctx.quick else "7"))
    mres = par.pmap(explore_line_index, [(P, k) for k in range(NM + 1)], NCPU)
    merr = [r[1] for r in mres if r[0] == "err"]
    if merr: raise Inconclusive("LineIndex exploration failed: " + merr[0][:1200])
    mres = [r[1] for r in mres]
    mpaths = sum(len(r["rows"]) for r in mres); mevents = []
    for r in mres:
        for row in r["rows"]:
            if row.get("event"): mevents.append(row["event"]); continue
            if row["bad"] and len(ctx.violations) < 6:
                pos, got, pgot, want = row["bad"][0]
                what = f"text {bytes.fromhex(row['text']) if row['text'] != '-' else b''!r}, offset {pos}: LineIndex::line_col = {got}, Position::line_col = {pgot}, newline/character count = {want}"
                pth = save_replay(ctx, f"linecol-{row['text']}-{pos}.json", {"kind": "linecol", "text": row["text"], "pos": pos, "want": list(want)})
                ctx.violations.append((what, pth, row["text"]))
    ctx.log(f"M: LineIndex/Position line_col on every valid UTF-8 text of 0..{NM} bytes: {mpaths} paths")
    # ---- engine M: Error::new_from_pos / new_from_span + Error::format on symbolic text, against the rendering oracle
    import rendersym, native
    RN = int(os.environ.get("VERIF_C10_R_N", "5" if ctx.quick else "6"))
    prefixes = [9, 99] if ctx.quick else [8, 9, 10, 98, 99, 100, 999]
    rjobs = rendersym.jobs(P, RN, prefixes, 1 if ctx.quick else 2)
    rres = par.pmap(rendersym.explore_render, rjobs, NCPU)
    rerr = [r[1] for r in rres if r[0] == "err"]
    if rerr: raise Inconclusive("rendering exploration failed: " + rerr[0][:1500])
    rres = [r[1] for r in rres]
    rrows = [row for r in rres for row in r["rows"]]
    revents = [row["event"] for row in rrows if row.get("event")]
    rrows = [row for row in rrows if not row.get("event")]
    native.build()
    nat = native.run_lines("render", [rendersym.native_line(row) for row in rrows], timeout=3000) if rrows else []
    renc = []; rvalid = 0
    for row, rep in zip(rrows, nat):
        pred = "PANIC" if row.get("panic") else "OK " + row.get("out", "-")
        if (pred == "PANIC") != rep.startswith("PANIC") or (pred != "PANIC" and pred != rep):
            renc.append({"req": rendersym.native_line(row), "pred": pred[:200], "native": rep[:200]}); continue
        rvalid += 1
        if row["problems"] and len(ctx.violations) < 6:
            t = bytes.fromhex(row["text"]) if row["text"] != "-" else b""
            where = f"offset {row['s']}" if row["e"] is None else f"span {row['s']}..{row['e']}"
            shown = ("\n" + bytes.fromhex(row["out"]).decode(errors="replace")) if row.get("out") not in (None, "-") else ""
            what = f"error at {where} of text {t!r} (line {row['L']}, column {row['C']}): " + "; ".join(row["problems"]) + shown
            pth = save_replay(ctx, f"render-{row['text'][:24]}-{row['s']}-{row['e']}.json", {"kind": "render", "text": row["text"], "s": row["s"], "e": row["e"]})
            ctx.violations.append((what, pth, row["text"]))
    ctx.log(f"M: Error::new_from_pos/new_from_span + Error::format on texts of 0..{RN} symbolic bytes (+ newline prefixes {prefixes}): {len(rrows)} paths, {rvalid} equal to the native rendering, {len(renc)} encoder mismatches")
    if renc and not ctx.violations: raise Inconclusive(f"ENCODER-MISMATCH (rendering) on {len(renc)} paths, e.g. {renc[0]}")
    if revents and not ctx.violations: raise Inconclusive(f"rendering exploration events: {revents[0]}")
    if ctx.violations:
        write_evidence(ctx, "model_checking", {"states": mpaths, "transitions": mpaths, "traces_validated_against_impl": 0, "samples": [r["rows"][0] for r in mres if r["rows"]][:3]}, ["violation found by the M part; K part not run"])
        return
    results = kani.run_harnesses(ctx, jobs)
    byh = {(j["harness"], j.get("variant", "default")): j for j in jobs}
    inconcl = kani.settle(ctx, results, byh)
    cov = {
        "states": sum(256 ** k for k in range(n + 1)),
        "transitions": sum(r["checks"] for r in results),
        "traces_validated_against_impl": 0,
        "samples": [{"harness": r["harness"], "status": r["status"], "cbmc_checks": r["checks"], "cbmc_s": r["cbmc_s"]} for r in results],
        "exhaustive": all(r["status"] == "pass" for r in results),
        "functions_encoded": ["pest::Position::{new,line_col,line_of,find_line_start,find_line_end,pos}",
                              "pest::Span::{new,get,start,end,as_str,split,start_pos,end_pos,lines_span}", "LinesSpan::next", "pest::merge_spans",
                              "core::str::{from_utf8, get, chars, char_indices, is_char_boundary} (compiled, no stub)"],
        "bounds": f"input: every byte string of length <= {n} that is valid UTF-8 (validity decided by the real core::str::from_utf8 inside the harness); offsets: any usize; unwinding assertions on",
        "m_line_index_paths": mpaths, "m_line_index_bound": f"every valid UTF-8 text of 0..{NM} bytes (symbolic), every char-boundary offset: LineIndex::new/line_col (behind Pair::line_col) and Position::line_col vs the newline/character count",
        "m_functions": sorted(set(f for r in mres + rres for f in r["fns"])),
        "m_rendering_paths": len(rrows), "m_rendering_equal_to_native": rvalid,
        "m_rendering_bound": f"Error::new_from_pos at every char-boundary offset and Error::new_from_span at every ordered pair of boundary offsets of every valid UTF-8 text of 0..{RN} bytes (symbolic), plus texts of {prefixes} newlines followed by 1..{1 if ctx.quick else 2} symbolic bytes (multi-digit line numbers); CustomError message; Error::format (what Display prints) executed from MIR; oracle P1-P5 of lib/rendersym.py (multi-line spans: no panic, location and the start line:column shown)",
        "queries_discharged": sum(r["checks"] for r in results if r["status"] == "pass") + sum(r["queries"] for r in mres + rres),
        "solver_time_s": sum((r["cbmc_s"] or 0) for r in results),
        "explanation": "states = byte strings of length <= N before the UTF-8 assumption (symbolic, not enumerated); transitions = CBMC checks discharged",
    }
    write_evidence(ctx, "model_checking", cov,
                   ["Kani/CBMC translation faithful", f"strings longer than {n} bytes are outside the claim",
                    "lines()/lines_span() 'overlap' is read as: non-empty input lines [ls,le) with ls <= span.end and le > span.start",
                    "LineIndex, Pair::line_col, Error line/col and rendering are covered by engine M only (not by the K harnesses); core::fmt semantics (format!) as documented",
                    "rendering: the marker check applies to positions and to spans inside one line; for spans over several lines only P1, P2 and the start line:column are decided; errors with a path (with_path) and ParsingError messages are rendered in C09, not here"],
                   {"repo_hashes": repo_hashes(["pest/src/position.rs", "pest/src/span.rs"])})
    if mevents: inconcl.append(f"M events: {mevents[0]}")
    if inconcl:
        raise Inconclusive("; ".join(inconcl))


def replay(ctx, path):
    import json, native
    d = json.load(open(path))
    if d.get("kind") == "render":
        import rendersym
        native.build()
        rep = native.run_lines("render", [f"{d['s']} {'-' if d['e'] is None else d['e']} {d['text']}"])[0]
        print(rep[:100])
        text = list(bytes.fromhex(d["text"])) if d["text"] != "-" else []
        sy = rendersym.Sy(None)
        L, C, lb = rendersym.reference(sy, text, d["s"])
        if rep.startswith("PANIC"): probs = [rep]
        elif d["e"] is not None and (rendersym.reference(sy, text, d["e"])[0] != L or rendersym.reference(sy, text, d["e"])[1] == 1):
            probs = [] if f"{L}:{C}".encode() in bytes.fromhex(rep[3:]) else [f"no row shows {L}:{C}"]
        else:
            probs = rendersym.check_rendering(sy, list(bytes.fromhex(rep[3:])) if rep[3:] != "-" else [], L, C, lb)
        print("problems:", probs)
        if probs:
            print(f"VIOLATION property=C10 replay={path}"); return 1
        return 0
    rep = native.run_lines("linecol", [f"{d['pos']} {d['text']}"])[0]
    print(rep, "| want", d["want"])
    if rep != f"{d['want'][0]}:{d['want'][1]} {d['want'][0]}:{d['want'][1]}":
        print(f"VIOLATION property=C10 replay={path}"); return 1
    return 0
