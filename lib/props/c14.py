"""C14 — the bootstrapped grammar parser is the parser its grammar file denotes (engine M: three executions on the
same symbolic text inside one path: the checked-in meta/src/grammar.rs (MIR of pest_meta), a parser freshly generated
from meta/src/grammar.pest by the working tree's generator, and pest_vm on the optimized rules of grammar.pest)."""
import os, time, json, re
import z3
from common import *
import native, par
from mirsym.interp import Explorer, Interp, Program
from mirsym.values import *
from mirsym.setup import fn_evidence, program as base_program
from mirsym import dump
from progsym import utf8_constraints, str_const
import pegsym, vmsym, gensym
from props import c01, c02
from props.c03 import S_STATE

GRAMMAR_PEST = os.path.join(REPO, "meta/src/grammar.pest")
START_RULES = ["grammar_rules", "grammar_rule", "expression", "term", "string", "character", "range", "identifier", "peek_slice", "repeat_min_max", "integer", "grammar_doc", "line_doc", "insensitive_string", "_push", "tag_id"]


def load_all():
    text = open(GRAMMAR_PEST).read()
    P, oks, d = gensym.load([text, 'a = { "x" }'], tag="c14", base_crates=("pest", "pest_vm"))
    if not oks[0]: raise Inconclusive("generator failed on grammar.pest")
    mir = dump.dump("pest_meta")
    P.load(mir, "pest_meta")
    src = open(os.path.join(REPO, "meta/src/grammar.rs")).read()
    P.variants["parser::Rule"] = gensym.enum_variants(src)
    P.variants["Rule"] = P.variants["parser::Rule"]
    return P, d, text


def explore(args):
    P, vm_rules, start, spec = args
    ex = Explorer(max_steps=800_000)
    if spec[0] == "free":
        n = spec[1]
        bs = [z3.BitVec(f"b{i}", 8) for i in range(n)]
        ex.add_base(*utf8_constraints(bs))
    elif spec[0] == "reuse":
        # the same Vm value parses an earlier text first (n1 symbolic bytes), then the text under test (n2 symbolic bytes)
        n1, n = spec[1], spec[2]
        first = [z3.BitVec(f"a{i}", 8) for i in range(n1)]
        bs = [z3.BitVec(f"b{i}", 8) for i in range(n)]
        ex.add_base(*utf8_constraints(first)); ex.add_base(*utf8_constraints(bs))
    else:
        tb, holes = spec[1], spec[2]
        bs = [z3.BitVec(f"b{i}", 8) if i in holes else tb[i] for i in range(len(tb))]
        for i in holes: ex.add_base(z3.ULT(bs[i], 0x80))
        n = len(tb)
    if spec[0] != "reuse": first = None
    rows = []; fns = set()

    def side(I, which, inp):
        try:
            if which == "checked_in":
                r = I.call("", "<PestParser as Parser>::parse", [I.make_adt(f"parser::Rule::{start}", []), inp])
            elif which == "generated":
                r = I.call("", "<G0 as Parser>::parse", [I.make_adt(f"g0::Rule::{start}", []), inp])
            else:
                vm = pegsym.build_vm(P, vm_rules, I)
                if first is not None:
                    try:
                        I.call("", "Vm::parse", [Ptr(Cell(vm)), str_const(start.encode()), SliceRef(VecObj(list(first), "input"), 0, len(first), True)])
                    except (Panic, StepLimit):
                        pass
                r = I.call("", "Vm::parse", [Ptr(Cell(vm)), str_const(start.encode()), inp])
        except Panic as e: return {"res": "PANIC", "msg": str(e)}
        except StepLimit as e: return {"res": "NONTERM", "msg": str(e)}
        v = r.f[0]
        if r.idx == 0:
            q = vmsym.vm_queue(Agg([None, I.deref(v.f[0])], "ps"))
            return {"res": "OK", "toks": vmsym.tok_str(q), "tags": vmsym.tags_str(q)}
        variant, pos = v.f[0], v.f[1]
        if variant.var == "CustomError": return {"res": "ERR", "at": pos.f[1], "var": "C[..]"}
        return {"res": "ERR", "at": pos.f[1], "var": f"P[{','.join(vmsym._nm(x) for x in variant.f[0].f)}]N[{','.join(vmsym._nm(x) for x in variant.f[1].f)}]"}

    def body(W):
        W.globals["CALL_LIMIT"] = 0; W.globals["ERROR_DETAIL"] = False
        out = {}
        for which in ("checked_in", "generated", "vm"):
            I = Interp(P, W, S_STATE)
            inp = SliceRef(VecObj(list(bs), "input"), 0, n, True)
            out[which] = side(I, which, inp)
            fns.update(I.fn_used)
        return out

    for W, res in ex.explore(body):
        if isinstance(res, Exception):
            rows.append({"inp": None, "event": f"{type(res).__name__}: {res}"}); continue
        m = W.get_model()
        res["inp"] = bytes((m.eval(b, model_completion=True).as_long() if is_sym(b) else b) for b in bs).hex() or "-"
        if first is not None: res["first"] = bytes(m.eval(b, model_completion=True).as_long() for b in first).hex() or "-"
        rows.append(res)
    return {"start": start, "spec": str(spec)[:70], "rows": rows, "paths": len(rows), "queries": ex.nqueries, "solver_s": ex.solver_time, "fns": fn_evidence(fns)}


def templates():
    out = []
    def t(s, hole="H"):
        b = s.encode(); holes = {i for i, c in enumerate(b) if c == ord(hole)}
        out.append(("tmpl", b, holes))
    for s in ['a = { "H" }', 'a = _{ H }', 'a = H{ b }', 'a = { b H c }', 'a = { bH }', 'a = { b{H} }', 'a = { b{H,H} }', "a = { 'H'..'H' }", 'a = { "\\H" }', 'a = { "\\xHH" }', 'a = { "\\u{HH}" }',
              'a = { PEEK[H..H] }', 'a = { PEEK[-H..] }', 'a = { PUSH(H) }', 'a = { ^"H" }', 'a = { !H ~ &H }', '//H\na = { b }', '/*H*/a={b}', '//! H\n', '/// H\na = { b }', 'a = { (b H c) }', 'aH= { b }', 'a = { #H = b }',
              'a = {H}', 'a = { b }H', 'H = { b }', 'a = { | b }', 'a = { b+H }', 'a = { "a"H"b" }',
              # names that begin with a keyword of the meta-grammar
              'a = { #PUSHH = b }', 'a = { #PEEK_x = b ~ #POP_ALLH = c }', 'a = { PUSH_ ~ POPH }', 'PUSHH = { PEEK_ALL_ | DROP_ }', 'a = { #PUSH_LITERALH = b }', 'a = { PUSH_LITERALH }', 'a = { #H = PUSH(b) }',
              # the bounded repetitions of the meta-grammar at their upper bound (hex_digit{2, 6})
              'a = { "\\u{10FFFH}" }', "a = { '\\u{01F60H}'..'\\u{10FFFF}' }", 'a = { "\\u{HFFFFFF}" }']:
        t(s)
    return out


def agree(a, b):
    return c02.same(a, b)


def run(ctx):
    native.build()
    P, d, text = load_all()
    st = c01.front([text])[0]
    if "error" in st: raise Inconclusive("grammar.pest rejected by the front-end: " + st["error"][:300])
    binary = gensym.build_native(d, tag="c14")
    N = int(os.environ.get("VERIF_C14_N", "2" if ctx.quick else "3"))
    jobs = []
    # "... and to each of its sub-rules": every rule of grammar.pest is an entry point (Parser::parse(Rule::x, ..) starts non-atomic
    # whatever context the rule normally runs in); quick: the eight main ones plus a rotating third of the others
    allr = re.findall(r"^([A-Za-z_][A-Za-z_0-9]*)\s*=", re.sub(r"//[^\n]*", "", text), re.M)
    others = [r for r in allr if r not in START_RULES[:8]]
    starts = allr if not ctx.quick else START_RULES[:8] + [r for i, r in enumerate(others) if i % 3 == ctx.seed % 3 or r in ("line_comment", "block_comment", "COMMENT", "WHITESPACE")]
    for s in starts:
        # thorough: the sixteen main rules up to N bytes, the remaining (mostly one-token) rules up to N-1
        for n in range((N if (ctx.quick or s in START_RULES) else N - 1) + 1): jobs.append((P, st["optimized"], s, ("free", n)))
    # comment rules entered directly: what lies between their parts is visible only on longer texts
    for t in ['/*H//H*/', '/* /*H*/ //H*/ */', '//H/x', '// H!', '/*H*/H', '//H\nH']:
        b = t.encode(); holes = {i for i, c in enumerate(b) if c == ord("H")}
        for s in ("block_comment", "line_comment", "COMMENT"):
            if s in allr: jobs.append((P, st["optimized"], s, ("tmpl", b, holes)))
    # one Vm value used for two texts in a row (a Vm is built once and reused by its users): the second result is compared
    RN = (1, 2) if ctx.quick else (2, 2)
    for s in starts[:1] if ctx.quick else starts[:4]:
        for n1 in range(RN[0] + 1):
            for n2 in range(RN[1] + 1): jobs.append((P, st["optimized"], s, ("reuse", n1, n2)))
    tmpl = templates() if not ctx.quick else (templates()[:29][::2] + templates()[29:])
    for t in tmpl: jobs.append((P, st["optimized"], "grammar_rules", t))
    t0 = time.time()
    res = par.pmap(explore, jobs, NCPU)
    errs = [(j[2], j[3], r[1]) for j, r in zip(jobs, res) if r[0] == "err"]
    if errs: raise Inconclusive(f"executor failed on {len(errs)} runs, e.g. start {errs[0][0]} {errs[0][1]}: {errs[0][2][:1500]}")
    results = [r[1] for r in res]
    paths = sum(r["paths"] for r in results)
    ctx.log(f"{len(starts)} start rules x free text 0..{N} bytes + {len(tmpl)} templates: {paths} joint paths (3 parsers each), {time.time()-t0:.1f}s")
    r1 = []; r2 = []; r3 = []; idx = []
    ghex = text.encode().hex()
    for ri, r in enumerate(results):
        for wi, row in enumerate(r["rows"]):
            if row.get("inp") is None: continue
            r1.append(f"{r['start']} {row['inp']}"); r2.append(f"0 {r['start']} {row['inp']}"); r3.append(f"0 0 {(row['first'] + '+') if 'first' in row else ''}{row['inp']} {r['start']} {ghex}"); idx.append((ri, wi))
    n1 = native.run_lines("meta", r1, timeout=3000) if r1 else []
    n2 = gensym.run_native(binary, r2) if r2 else []
    n3 = c01.native_vm(r3) if r3 else []
    enc = []; events = []; validated = 0
    for (ri, wi), a, b, c in zip(idx, n1, n2, n3):
        r = results[ri]; row = r["rows"][wi]
        nat = {"checked_in": c01.parse_vm_reply(a), "generated": c01.parse_vm_reply(b), "vm": c01.parse_vm_reply(c)}
        okk = all(row[k]["res"] in ("PANIC", "NONTERM") and nat[k]["res"] == "PANIC" or agree(row[k], nat[k]) for k in nat)
        if not okk:
            enc.append({"start": r["start"], "input": row["inp"], "pred": {k: row[k] for k in nat}, "native": [a[:200], b[:200], c[:200]]}); continue
        validated += 3
        if not (agree(row["checked_in"], row["generated"]) and agree(row["generated"], row["vm"])):
            pre = f"Vm reused after parsing {bytes.fromhex(row['first']) if row['first'] != '-' else b''!r}; " if "first" in row else ""
            what = f"start {r['start']}, {pre}text {bytes.fromhex(row['inp']) if row['inp'] != '-' else b''!r}: checked-in grammar.rs -> {a[:150]} | freshly generated -> {b[:150]} | VM -> {c[:150]}"
            if len(ctx.violations) < 10:
                pth = save_replay(ctx, f"meta-{abs(hash(r['start'] + row['inp'])) % 10**8}.json", {"start": r["start"], "input": row["inp"], "first": row.get("first")})
                ctx.violations.append((what, pth, row["inp"]))
    for r in results:
        for row in r["rows"]:
            if row.get("event"): events.append(f"start {r['start']} {r['spec']}: {row['event']}")
    ctx.log(f"native validation: {validated} runs agree, {len(enc)} encoder mismatches, {len(events)} events")
    samples = [{"start": r["start"], "text_hex": r["rows"][-1]["inp"], "checked_in": r["rows"][-1].get("checked_in")} for r in results[::max(1, len(results) // 6)][:6] if r["rows"] and r["rows"][-1].get("inp")]
    cov = {"programs": 3, "disagreements_checked": paths, "samples": samples or [{"note": "none"}], "traces_validated_against_impl": validated, "exhaustive": False,
           "functions_encoded": sorted(set(f for r in results for f in r["fns"]))[:400],
           "bounds": f"start rules {starts} x every valid UTF-8 text of 0..{N} bytes (symbolic) + {len(tmpl)} grammar templates with symbolic ASCII holes fed to grammar_rules + one Vm value reused for two texts in a row (first 0..{RN[0]}, second 0..{RN[1]} symbolic bytes; the second result is compared)",
           "paths": paths, "queries_discharged": sum(r["queries"] for r in results), "solver_time_s": round(sum(r["solver_s"] for r in results), 2), "encoder_mismatches": len(enc), "events": events[:10],
           "explanation": "programs = the three parsers of the meta-grammar; disagreements_checked = joint paths on which their results were compared"}
    write_evidence(ctx, "translation_validation", cov,
                   ["checked-in parser = MIR of pest_meta (meta/src/grammar.rs); fresh parser = text emitted by the working tree's generator for meta/src/grammar.pest; VM on parse_and_optimize(grammar.pest)",
                    "acceptance, token tree, error position and expected/unexpected rule sets are compared; every joint path is replayed on all three compiled parsers"],
                   {"repo_hashes": repo_hashes(["meta/src/grammar.pest", "meta/src/grammar.rs", "generator/src/generator.rs", "vm/src/lib.rs"])})
    if ctx.violations: return
    if enc: raise Inconclusive(f"ENCODER-MISMATCH on {len(enc)} paths, e.g. {enc[0]}")
    if events: raise Inconclusive(f"{len(events)} events, e.g. {events[0]}")


def replay(ctx, path):
    d = json.load(open(path))
    native.build()
    text = open(GRAMMAR_PEST).read()
    P, oks, dd = gensym.load([text, 'a = { "x" }'], tag="c14")
    b = gensym.build_native(dd, tag="c14")
    a1 = native.run_lines("meta", [f"{d['start']} {d['input']}"])[0]
    a2 = gensym.run_native(b, [f"0 {d['start']} {d['input']}"])[0]
    a3 = c01.native_vm([f"0 0 {(d['first'] + '+') if d.get('first') else ''}{d['input']} {d['start']} {text.encode().hex()}"])[0]
    print(a1); print(a2); print(a3)
    v = [c01.parse_vm_reply(x) for x in (a1, a2, a3)]
    if not (agree(v[0], v[1]) and agree(v[1], v[2])):
        print(f"VIOLATION property=C14 replay={path}"); return 1
    print("replay: the three parsers agree"); return 0
