"""C09 (reduced form) — the grammar front-end is total. Engine M executes the real pest_meta::parse_and_optimize (checked-in
meta-parser, validate_pairs, consume_rules, validate_ast, optimize) and pest_generator::docs::consume from MIR on every text of
up to N bytes and on near-miss grammar templates with symbolic holes; no path may panic or abort (a native run that kills its process is reported), every reported error must carry a
location inside the text and is rendered by the real Error::format (compared with the native rendering)."""
import os, time, json, re
import z3
from common import *
import native, par
from mirsym.interp import Explorer, Interp
from mirsym.values import *
from mirsym.setup import fn_evidence
from mirsym.summaries import S
from progsym import utf8_constraints
from props import c07

IDENT = lambda h: z3.Or(z3.And(z3.UGE(h, 48), z3.ULE(h, 57)), z3.And(z3.UGE(h, 65), z3.ULE(h, 90)), z3.And(z3.UGE(h, 97), z3.ULE(h, 122)), h == 95)


def templates():
    """H: any ASCII byte; P: any ASCII byte that cannot extend an identifier (rule names are kept concrete: the validator's
    sets are keyed by them)"""
    T = ['a = { "b" <P> }', 'a = <P> "b" }', 'a <P> { "b" }', 'a = { b{<H>} }', 'a = { b{<H>,<H>} }', 'a = { b{,<H>} }', 'a = { "\\<H>" }', 'a = { "\\x<H><H>" }', "a = { '\\u{<H><H>}'..'z' }", "a = { '<H>'..'<H>' }",
         'a = { PEEK[<H>..] }', 'a = { PEEK[-<H>..<H>] }', 'a = { PEEK[..<H><H>] }', 'a = { (b }<P>', 'a = { b ~ <P>}', 'a = { b | <P> c }', 'a = @<P>{ b }', 'a = <P>{ b }', '//<H>\na = { b }', '/*<H>*/ a = { b }', '/*<H><H> a = { b }',
         'a = { ^<P>"b" }', 'a = { !<P> }', 'a = { &b <P>* }', 'a = { b }\nb = { a <P> }', 'WHITESPACE = { " "<P> }', 'COMMENT = _{ "#"<P> }', 'a = { a{2}<P> }', 'a = { (b | "x")<P> ~ b }\nb = { "y" }',
         'a = { PUSH(b<P>) }', 'a = { PUSH_LITERAL("x")<P> }', 'a = { #t <P>= b }', 'a = { "a"<P>.."c" }', "a = { 'a'<P>'c' }", 'a = { b }<P>', '<P>', 'a = { b{1<H>} }', 'a = { b{<H>1,2} }',
         '/// <H>\na = { b }', '//! <H>\n', 'a = _{ b }\nb = ${ a? ~ "x"<P> }', 'a = { "x"<P>* }', 'a = { ("x"?)<P> }', 'ANY = { "x" }<P>', 'a = { b }\na = { "x"<P> }', 'a = { undefined<P> }',
         'a = { PEEK<P>[1..] }', 'a = { PUSH<P>(b) }', 'a = { PEEK[1<P>..2] }',
         # non-ASCII text before the place of the error (the reported column is a character count)
         "a = { 'éé'<P> }", 'a = { "日本語"<P> }', 'a = { "日本語"* ~ ("z"?)<P> }', '/*é\r*/ a = {<P>', 'é = { "x" }<P>', 'a = { "é" ~ b<P> }\nb = { "ü"<P> }', '// é\na = { "x" <P>',
         # several errors at once (the error list is sorted and merged): every pair of kinds of the AST-validation stage
         'a = { "x"{3, 2} ~ ("" | "y") }', 'a = { "x"{<H>,<H>} }\nb = { a{5, 1} ~ (""*)<P> }', 'a = { a ~ "x" }\nb = { "y"{2, 1}<P> }', 'a = { ("" | "x") ~ (""*) }\nb = { b<P> }',
         'a = { (!"x")* ~ ("x" | "") ~ a? }\nWHITESPACE = { ""<P> }', 'COMMENT = { "x"* }\na = { a{<H>} | ("a" | "a"*)+ }', 'a = { b{<H>,1} ~ b{1,<H>} }\nb = { "x"? }',
         # left recursion that an earlier rule merely leads into, under the skip idiom of an atomic rule (the optimizer inlines through it)
         'a = @{ (!b ~ ANY)* }\nb = { "x" | c }\nc = { "y" | b<P> }', 'a = @{ (!(b | "z") ~ ANY)* ~ b }\nb = { c<P> }\nc = { b | "y" }',
         # concrete near-misses (no hole): out-of-range numbers
         'a = { PEEK[99999999999..] }', 'a = { PEEK[..-99999999999] }', 'a = { b{99999999999} }', 'a = { b{1,99999999999} }', 'a = { b{4294967296,} }', "a = { '\\u{110000}'..'z' }", 'a = { "\\u{D800}" }', 'a = { b{2,1} }', 'a = { b{0} }']
    out = []
    for t in T:
        parts = re.split(r"(<H>|<P>)", t)
        b = bytearray(); holes = {}
        for part in parts:
            if part in ("<H>", "<P>"):
                holes[len(b)] = part[1]; b.append(0x3F)
            else:
                b += part.encode()
        out.append(("tmpl", bytes(b), holes))
    return out


def load():
    from mirsym.setup import program
    import gensym
    P = program(("pest", "pest_meta", "pest_generator"))
    src = open(os.path.join(REPO, "meta/src/grammar.rs")).read()
    P.variants["parser::Rule"] = gensym.enum_variants(src)
    P.variants["Rule"] = P.variants["parser::Rule"]
    return P


def explore(args):
    P, spec = args
    ex = Explorer(max_steps=8_000_000)
    if spec[0] == "free":
        n = spec[1]; bs = [z3.BitVec(f"b{i}", 8) for i in range(n)]
        ex.add_base(*utf8_constraints(bs)); text = bs
    else:
        tb, holes = spec[1], spec[2]
        text = [z3.BitVec(f"b{i}", 8) if i in holes else tb[i] for i in range(len(tb))]
        for i, kind in holes.items():
            ex.add_base(z3.ULT(text[i], 0x80))
            if kind == "P": ex.add_base(z3.Not(IDENT(text[i])))
    n = len(text)
    rows = []; fns = set()

    def body(W):
        W.globals["CALL_LIMIT"] = 0; W.globals["ERROR_DETAIL"] = False
        I = Interp(P, W, S)
        inp = SliceRef(VecObj(list(text), "input"), 0, n, True)
        try:
            r = I.call("", "parse_and_optimize", [inp])
        except Panic as e:
            fns.update(I.fn_used)
            return {"res": "PANIC", "msg": str(e)}
        fns.update(I.fn_used)
        # the second observation point of the statement: pest_generator::docs::consume on the pairs of the meta-parser
        # (what the derive does before validating); it has to survive whatever the meta-parser accepts
        try:
            pr = I.call("", "parser::parse", [I.make_adt("parser::Rule::grammar_rules", []), inp])
            if pr.idx == 0:
                I.call("", "docs::consume", [pr.f[0]])
        except Panic as e:
            fns.update(I.fn_used)
            return {"res": "PANIC", "msg": "pest_generator::docs::consume: " + str(e), "docs": True}
        fns.update(I.fn_used)
        if r.idx == 0:
            return {"res": "OK", "rules": len(r.f[0].f[1].f)}
        errs = r.f[0].f
        bad = []
        if not errs: bad.append("Err with an empty error list")
        for e in errs:
            loc = e.f[1]         # Error { variant, location, line_col, inner }
            hi = loc.f[0] if loc.var == "Pos" else max(loc.f[0].f[0], loc.f[0].f[1])
            lo = loc.f[0] if loc.var == "Pos" else loc.f[0].f[0]
            if hi > n or (loc.var == "Span" and lo > loc.f[0].f[1]): bad.append(f"error location {loc} outside the text of {n} bytes")
        # "... and can be rendered": the real Error::format (spacing, underline, message, format!) executed from MIR
        rendered = []
        for e in errs:
            try:
                out = I.call("", "Error::format", [Ptr(Cell(e))]).f
                rendered.append(out)
            except Panic as ex_:
                fns.update(I.fn_used)
                return {"res": "PANIC", "msg": "rendering a reported error: " + str(ex_)}
        fns.update(I.fn_used)
        return {"res": "ERR", "n": len(errs), "bad": bad, "rendered": rendered, "ph": len(W.user.get("fmt_placeholders", []))}

    for W, res in ex.explore(body):
        if isinstance(res, Exception):
            if type(res).__name__ == "StepLimit":
                # the step / call-depth budget ran out: unbounded recursion or iteration on this path; the native replay decides
                # (a stack overflow aborts the process, which the statement forbids)
                res = {"res": "NONTERM", "msg": str(res)[:200]}
            else:
                rows.append({"event": f"{type(res).__name__}: {str(res)[:300]}"}); continue
        m = W.get_model()
        ev = lambda b: m.eval(b, model_completion=True).as_long() if is_sym(b) else b
        res["text"] = bytes(ev(b) for b in text).hex() or "-"
        if "rendered" in res: res["rendered"] = [bytes(ev(b) for b in o).hex() for o in res["rendered"]]
        rows.append(res)
    return {"spec": (spec[1] if spec[0] == "free" else spec[1].decode(errors="replace")), "rows": rows, "queries": ex.nqueries, "solver_s": ex.solver_time, "fns": fn_evidence(fns)}


def run(ctx):
    native.build()
    P = load()
    known, _ = load_known("C09")
    N = int(os.environ.get("VERIF_C09_N", "2" if ctx.quick else "3"))
    tm = templates()
    specs = [("free", n) for n in range(N + 1)] + (tm if not ctx.quick else tm)
    t0 = time.time()
    res = par.pmap(explore, [(P, s) for s in specs], NCPU)
    errs = [(s[1], r[1]) for s, r in zip(specs, res) if r[0] == "err"]
    if errs: raise Inconclusive(f"executor failed on {len(errs)} specs, e.g. {errs[0][0]!r}: {errs[0][1][:1500]}")
    res = [r[1] for r in res]
    paths = sum(len(r["rows"]) for r in res)
    ctx.log(f"parse_and_optimize from MIR: free texts 0..{N} bytes + {len(tm)} templates: {paths} paths, {time.time()-t0:.1f}s")
    # native replay of every path
    lines = [row["text"] for r in res for row in r["rows"] if row.get("text")]
    reps = native.run_lines("grammar", lines, timeout=3000, tolerant=True) if lines else []
    rendered_checked = 0
    k = 0; enc = []; events = []; validated = 0; counts = {"OK": 0, "ERR": 0, "PANIC": 0}
    for r in res:
        for row in r["rows"]:
            if row.get("event"): events.append(f"{r['spec']!r}: {row['event']}"); continue
            rep = reps[k]; k += 1
            nat = "OK" if rep.startswith("OK") else "PANIC" if rep.startswith("PANIC") else "ABORT" if rep.startswith("ABORT") else "ERR"
            if nat == "ABORT" and row["res"] == "NONTERM": nat = row["res"] = "PANIC"; rep = "PANIC the process aborts: " + rep[6:]
            if nat != row["res"]:
                enc.append({"text": row["text"], "pred": row["res"], "native": rep[:200]}); continue
            if nat == "ERR" and "rendered" in row and not row.get("ph"):
                nr = rep.split(" ")[3].split(",") if len(rep.split(" ")) > 3 else []
                if nr != row["rendered"]:
                    enc.append({"text": row["text"], "pred_rendering": [bytes.fromhex(x).decode(errors="replace") for x in row["rendered"]][:2], "native": [bytes.fromhex(x).decode(errors="replace") for x in nr if x != "-"][:2]}); continue
                rendered_checked += 1
            validated += 1; counts[nat] += 1
            probs = []
            if nat == "PANIC": probs.append("the front-end panics: " + rep[6:160])
            probs += row.get("bad", [])
            if probs:
                txt = bytes.fromhex(row["text"]).decode(errors="replace") if row["text"] != "-" else ""
                what = f"grammar text {txt!r}: " + "; ".join(probs)
                hit = next((e for e in known if e.get("pattern") and re.search(e["pattern"], txt)), None)
                if hit is not None:
                    if not any(h[0] is hit for h in ctx.known_hits): ctx.known_hits.append((hit, hit["what"] + f" [witness: {txt!r}]"))
                elif len(ctx.violations) < 10:
                    pth = save_replay(ctx, f"text-{abs(hash(row['text'])) % 10**8}.json", {"text": row["text"]})
                    ctx.violations.append((what, pth, row["text"]))
    ctx.log(f"native replay: {validated} paths agree ({counts}), {len(enc)} encoder mismatches, {len(events)} events")
    cov = {"explanation": "reduced form: totality is decided for every text up to N bytes and for near-miss templates around fixed skeletons, not for all strings; every reported error is rendered by the real Error::format executed from MIR (format! interpreted from rustc's template lowering) and the rendering is compared byte for byte with the native Display output on every path",
           "renderings_equal_to_native": rendered_checked,
           "evaluations": paths, "distinct_nontrivial": validated, "traces_validated_against_impl": validated, "outcomes": counts,
           "samples": [(bytes.fromhex(x).decode(errors="replace") if x != "-" else "") for x in lines[::max(1, len(lines) // 8)][:8]],
           "functions_encoded": sorted(set(f for r in res for f in r["fns"]))[:500],
           "bounds": f"every valid UTF-8 text of 0..{N} bytes (symbolic) + {len(tm)} near-miss templates (truncated constructs, odd escapes, unbalanced delimiters, stray bytes after every kind of token, out-of-range numbers) with 1-2 symbolic ASCII holes; rule names concrete",
           "queries_discharged": sum(r["queries"] for r in res), "solver_time_s": round(sum(r["solver_s"] for r in res), 2), "encoder_mismatches": len(enc), "events": events[:8], "exhaustive": False}
    write_evidence(ctx, "other", cov, ["MIR of pest_meta (meta-parser, validator, optimizer) and pest; HashMap/HashSet/LazyLock summarised; format!/write!/to_string interpreted from the compiler's fmt::Arguments template (core::fmt semantics assumed as documented); pest_generator::docs::consume runs from MIR on the pairs of every text the meta-parser accepts",
                                       "bounded time is witnessed by the step budget per path (8M MIR statements), never reached"],
                   {"repo_hashes": repo_hashes(["meta/src/lib.rs", "meta/src/parser.rs", "meta/src/validator.rs", "meta/src/optimizer/mod.rs"])})
    if ctx.violations: return
    if enc: raise Inconclusive(f"ENCODER-MISMATCH on {len(enc)} paths, e.g. {enc[0]}")
    if events: raise Inconclusive(f"{len(events)} events, e.g. {events[0]}")


def replay(ctx, path):
    d = json.load(open(path))
    native.build()
    rep = native.run_lines("grammar", [d["text"]], tolerant=True)[0]
    print(rep[:300])
    if rep.startswith(("PANIC", "ABORT")):
        print(f"VIOLATION property=C09 replay={path}"); return 1
    print("replay: no panic"); return 0
