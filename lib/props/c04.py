"""C04 — the token stream is a well-formed tree and every Pairs view agrees with it (engine M on the MIR of
pest/src/iterators/*: trees are built through the real PairsBuilder, the interleaving of next/next_back/len/peek is chosen
by symbolic selectors and every answer is compared with the explicit tree)."""
import os, time, json, itertools, random
import z3
from common import *
import par
from mirsym.setup import program, fn_evidence
from mirsym.interp import Explorer, Interp
from mirsym.values import *
from mirsym.summaries import S
from progsym import str_const
from mirsym.summaries_fmt import render, Opt

TAG = b"t"
INPUT = "é\nüxcdefgh".encode()          # a two-byte character before a pair on a terminated line and on the last, unterminated line
BOUND = [0, 2, 3, 5, 6, 7, 8, 9, 10, 11, 12]


# ---------------------------------------------------------------- trees
def forests(n, depth):
    """all ordered forests with exactly n nodes and height <= depth; a node is a list of children"""
    if n == 0: return [[]]
    if depth == 0: return []
    out = []
    for k in range(1, n + 1):                 # size of the first tree
        for kids in forests(k - 1, depth - 1):
            for rest in forests(n - k, depth):
                out.append([kids] + rest)
    return out


def layout(forest):
    """assign spans: every leaf covers one character; returns nodes in preorder: dict(id, rule, start, end, children ids, depth)"""
    nodes = []; pos = [0]
    def rec(kids, depth):
        me = {"id": len(nodes), "rule": 1 + len(nodes) % 3, "children": [], "depth": depth}
        nodes.append(me)
        if not kids:
            me["start"] = BOUND[pos[0]]; pos[0] += 1; me["end"] = BOUND[pos[0]]
        else:
            for k in kids:
                me["children"].append(rec(k, depth + 1))
            me["start"] = nodes[me["children"][0]]["start"]; me["end"] = nodes[me["children"][-1]]["end"]
        return me["id"]
    tops = [rec(k, 0) for k in forest]
    return nodes, tops


def ref_line_col(pos):
    line = 1 + INPUT[:pos].count(b"\n")
    last = INPUT[:pos].rfind(b"\n")
    return line, 1 + len(INPUT[last + 1:pos].decode())


def tokens_of(nodes, tops):
    out = []
    def rec(i):
        out.append(("S", nodes[i]["rule"], nodes[i]["start"], i))
        for c in nodes[i]["children"]: rec(c)
        out.append(("E", nodes[i]["rule"], nodes[i]["end"], i))
    for t in tops: rec(t)
    return out


def preorder(nodes, tops):
    out = []
    def rec(i):
        out.append(i)
        for c in nodes[i]["children"]: rec(c)
    for t in tops: rec(t)
    return out


# ---------------------------------------------------------------- driving the real code
def build_pairs(I, nodes, tops, tag_node=None):
    inp = str_const(INPUT)
    def add(b, i):
        n = nodes[i]
        if n["children"]:
            b = I.call("", "PairsBuilder::rule_with", [b, n["rule"], n["start"], n["end"], PyClosure(lambda I2, inner, n=n: kids(inner, n), "children")])
        else:
            b = I.call("", "PairsBuilder::rule", [b, n["rule"], n["start"], n["end"]])
        if tag_node == i: b = I.call("", "PairsBuilder::tag", [b, str_const(b"t")])
        return b
    def kids(b, n):
        for c in n["children"]: b = add(b, c)
        return b
    b = I.call("", "PairsBuilder::new", [inp])
    for t in tops: b = add(b, t)
    return I.call("", "PairsBuilder::build", [b])


def pair_id(I, p, toks):
    """which tree node does this Pair denote: its start token index"""
    return toks[p.f[2]][3] if isinstance(p.f[2], int) else None


def check_pair(I, p, nodes, toks, errs, where):
    """all single-pair observations against the tree node"""
    # Pair fields: queue, input, start, line_index
    sidx = p.f[2]
    if not (0 <= sidx < len(toks)) or toks[sidx][0] != "S":
        errs.append(f"{where}: pair does not start at a Start token (index {sidx})"); return None
    n = nodes[toks[sidx][3]]
    pp = Ptr(Cell(p))
    if I.call("", "Pair::as_rule", [pp]) != n["rule"]: errs.append(f"{where}: as_rule")
    s = I.call("", "Pair::as_str", [pp])
    if bytes(s.items()) != INPUT[n["start"]:n["end"]]: errs.append(f"{where}: as_str = {bytes(s.items())!r}, want {INPUT[n['start']:n['end']]!r}")
    sp = I.call("", "Pair::as_span", [pp])
    if (sp.f[1], sp.f[2]) != (n["start"], n["end"]): errs.append(f"{where}: as_span = {(sp.f[1], sp.f[2])}")
    lc = I.call("", "Pair::line_col", [pp])
    if tuple(lc.f) != ref_line_col(n["start"]): errs.append(f"{where}: line_col = {tuple(lc.f)}, want {ref_line_col(n['start'])}")
    inner = I.call("", "Pair::into_inner", [clone_val(p)])
    ln = I.call("", "<Pairs as ExactSizeIterator>::len", [Ptr(Cell(inner))])
    if ln != len(n["children"]): errs.append(f"{where}: into_inner().len() = {ln}, want {len(n['children'])}")
    return n["id"]


OPS = ["next", "next_back", "len", "clone", "peek"]


def explore_view(args):
    P, forest, view, K = args
    nodes, tops = layout(forest)
    toks = tokens_of(nodes, tops)
    ex = Explorer(max_steps=600_000)
    sels = [z3.BitVec(f"s{i}", 8) for i in range(K)]
    nops = 5 if view == "pairs" else 4
    for s in sels: ex.add_base(z3.ULT(s, nops))
    rows = []; fns = set()

    def body(W):
        I = Interp(P, W, S)
        errs = []
        pairs = build_pairs(I, nodes, tops)
        if view == "pairs":
            it = pairs; model = list(tops); nxt, nbk, ln = "<Pairs as Iterator>::next", "<Pairs as DoubleEndedIterator>::next_back", "<Pairs as ExactSizeIterator>::len"
        elif view == "flat":
            it = I.call("", "Pairs::flatten", [pairs]); model = preorder(nodes, tops)
            nxt, nbk, ln = "<FlatPairs as Iterator>::next", "<FlatPairs as DoubleEndedIterator>::next_back", "<FlatPairs as ExactSizeIterator>::len"
        else:
            it = I.call("", "Pairs::tokens", [pairs]); model = list(range(len(toks)))
            nxt, nbk, ln = "<Tokens as Iterator>::next", "<Tokens as DoubleEndedIterator>::next_back", "<Tokens as ExactSizeIterator>::len"
        ip = Ptr(Cell(it))
        hist = []
        for k in range(K):
            op = OPS[W.choose(sels[k])]
            hist.append(op)
            try:
                if op == "clone":
                    # continue with a clone of the view: it must denote the same remaining items
                    cl = I.call("", {"pairs": "<Pairs as Clone>::clone", "flat": "<FlatPairs as Clone>::clone", "tokens": "<Tokens as Clone>::clone"}[view], [ip])
                    ip = Ptr(Cell(cl))
                    continue
                if op == "len":
                    got = I.call("", ln, [ip])
                    if got != len(model): errs.append(f"after {hist}: len() = {got}, the tree has {len(model)} left")
                    sh = I.call("", nxt.replace("::next", "::size_hint"), [ip])
                    if sh.f[0] != len(model) or sh.f[1].idx != 1 or sh.f[1].f[0] != len(model): errs.append(f"after {hist}: size_hint disagrees with the tree")
                    continue
                if op == "peek":
                    r = I.call("", "Pairs::peek", [ip])
                    want = model[0] if model else None
                else:
                    r = I.call("", nxt if op == "next" else nbk, [ip])
                    want = (model.pop(0) if op == "next" else model.pop()) if model else None
                if (r.idx == 1) != (want is not None):
                    errs.append(f"after {hist}: {op}() returned {'Some' if r.idx == 1 else 'None'}, the tree says {'Some' if want is not None else 'None'}"); break
                if r.idx == 1:
                    if view == "tokens":
                        t = r.f[0]; w = toks[want]
                        got = (("S" if t.var == "Start" else "E"), t.f[0], t.f[1].f[1])
                        if got != (w[0], w[1], w[2]): errs.append(f"after {hist}: token {got}, want {w[:3]}")
                    else:
                        got = check_pair(I, r.f[0], nodes, toks, errs, f"after {hist}")
                        if got is not None and got != want: errs.append(f"after {hist}: {op}() yielded node {got}, the tree says node {want}")
            except Panic as e:
                errs.append(f"after {hist}: panic: {e}"); break
        fns.update(I.fn_used)
        return {"hist": hist, "errs": errs}

    for W, res in ex.explore(body):
        if isinstance(res, Exception):
            rows.append({"event": f"{type(res).__name__}: {res}"}); continue
        rows.append(res)
    return {"forest": forest, "view": view, "rows": rows, "queries": ex.nqueries, "solver_s": ex.solver_time, "fns": fn_evidence(fns)}


def tree_text(nodes, i):
    """what `{:#}` prints for a pair: rule(start, end) or rule(start, end, [children])"""
    n = nodes[i]
    if not n["children"]: return f"{n['rule']}({n['start']}, {n['end']})".encode()
    return f"{n['rule']}({n['start']}, {n['end']}, [".encode() + b", ".join(tree_text(nodes, c) for c in n["children"]) + b"])"


def debug_text(nodes, i, tagged):
    """what `{:?}` prints for a pair (the tag of this check's trees is "t" on the last node)"""
    from mirsym.summaries_fmt import _escape_debug_str
    n = nodes[i]
    txt = bytes(_escape_debug_str(list(INPUT[n["start"]:n["end"]]), '"'))
    tag = b'node_tag: "%s", ' % TAG if i == tagged else b""
    return (b"Pair { rule: %d, " % n["rule"]) + tag + b"span: Span { str: " + txt + (b", range: %d..%d }, inner: [" % (n["start"], n["end"])) + b", ".join(debug_text(nodes, c, tagged) for c in n["children"]) + b"] }"


def explore_static(args):
    """per-tree observations that involve no interleaving: Pairs::single, as_str/concat, find_tagged, well-formedness of the queue"""
    P, forest = args
    nodes, tops = layout(forest)
    toks = tokens_of(nodes, tops)
    errs = []; fns = set()
    ex = Explorer(max_steps=600_000)

    def body(W):
        I = Interp(P, W, S)
        pairs = build_pairs(I, nodes, tops, tag_node=len(nodes) - 1)
        # the queue PairsBuilder produced is the expected token sequence with matching partner indices
        q = I.deref(pairs.f[0]).f
        if len(q) != len(toks): errs.append(f"queue has {len(q)} tokens, tree has {len(toks)}")
        stack = []
        for i, (t, w) in enumerate(zip(q, toks)):
            if (t.var == "Start") != (w[0] == "S"): errs.append(f"token {i} kind"); break
            if t.var == "Start": stack.append(i)
            else:
                s = stack.pop()
                if t.f[0] != s or q[s].f[0] != i: errs.append(f"token {i}: partner indices do not match")
        # concat / as_str of the top-level view
        try:
            s = I.call("", "Pairs::as_str", [Ptr(Cell(pairs))])
            want = INPUT[nodes[tops[0]]["start"]:nodes[tops[-1]]["end"]] if tops else b""
            if bytes(s.items()) != want: errs.append(f"Pairs::as_str = {bytes(s.items())!r}, want {want!r}")
        except Panic as e: errs.append(f"Pairs::as_str panics: {e}")
        # every pair through flatten: Pairs::single(pair) is a view of exactly that pair
        fl = I.call("", "Pairs::flatten", [clone_val(pairs)])
        fp = Ptr(Cell(fl))
        while True:
            r = I.call("", "<FlatPairs as Iterator>::next", [fp])
            if r.idx == 0: break
            p = r.f[0]; nid = toks[p.f[2]][3]; n = nodes[nid]
            for how in ("next", "next_back"):
                try:
                    sg = I.call("", "Pairs::single", [clone_val(p)])
                    sp = Ptr(Cell(sg))
                    l = I.call("", "<Pairs as ExactSizeIterator>::len", [sp])
                    if l != 1: errs.append(f"Pairs::single(node {nid}).len() = {l}")
                    st = I.call("", "Pairs::as_str", [sp])
                    if bytes(st.items()) != INPUT[n["start"]:n["end"]]: errs.append(f"Pairs::single(node {nid}).as_str() = {bytes(st.items())!r}, want {INPUT[n['start']:n['end']]!r}")
                    x = I.call("", "<Pairs as Iterator>::next" if how == "next" else "<Pairs as DoubleEndedIterator>::next_back", [sp])
                    if x.idx != 1 or x.f[0].f[2] != p.f[2]: errs.append(f"Pairs::single(node {nid}).{how}() does not yield the pair")
                    y = I.call("", "<Pairs as Iterator>::next", [sp])
                    if y.idx != 0: errs.append(f"Pairs::single(node {nid}) yields more than one pair")
                except Panic as e:
                    errs.append(f"Pairs::single(node {nid}).{how}(): panic: {e}")
            tg = I.call("", "Pair::as_node_tag", [Ptr(Cell(p))])
            if (tg.idx == 1) != (nid == len(nodes) - 1): errs.append(f"as_node_tag of node {nid}")
            # Display of the pair: `{}` is its text, `{:#}` the tree below it (the real impls run from MIR, format! interpreted)
            for alt in (False, True):
                try:
                    got = bytes(render(I, Agg([Ptr(Cell(p))], "FmtArg:new_display:Pair"), Opt(0x60000020 | ((1 << 23) if alt else 0))))
                    want = tree_text(nodes, nid) if alt else INPUT[n["start"]:n["end"]]
                    if got != want: errs.append(f"Display ({'{:#}' if alt else '{}'}) of node {nid} = {got!r}, want {want!r}")
                except Panic as e:
                    errs.append(f"Display of node {nid}: panic: {e}")
            try:
                got = bytes(render(I, Agg([Ptr(Cell(p))], "FmtArg:new_debug:Pair"), Opt()))
                if got != debug_text(nodes, nid, len(nodes) - 1): errs.append(f"Debug of node {nid} = {got!r}, want {debug_text(nodes, nid, len(nodes) - 1)!r}")
            except Panic as e:
                errs.append(f"Debug of node {nid}: panic: {e}")
        try:
            got = bytes(render(I, Agg([Ptr(Cell(clone_val(pairs)))], "FmtArg:new_debug:Pairs"), Opt()))
            want = b"[" + b", ".join(debug_text(nodes, t, len(nodes) - 1) for t in tops) + b"]"
            if got != want: errs.append(f"Debug of the Pairs view = {got!r}, want {want!r}")
        except Panic as e:
            errs.append(f"Debug of the Pairs view: panic: {e}")
        for alt in (False, True):
            try:
                got = bytes(render(I, Agg([Ptr(Cell(clone_val(pairs)))], "FmtArg:new_display:Pairs"), Opt(0x60000020 | ((1 << 23) if alt else 0))))
                want = b"[" + b", ".join((tree_text(nodes, t) if alt else INPUT[nodes[t]["start"]:nodes[t]["end"]]) for t in tops) + b"]"
                if got != want: errs.append(f"Display ({'{:#}' if alt else '{}'}) of the Pairs view = {got!r}, want {want!r}")
            except Panic as e:
                errs.append(f"Display of the Pairs view: panic: {e}")
        fns.update(I.fn_used)
        return None

    for W, res in ex.explore(body):
        if isinstance(res, Exception): errs.append(f"event {type(res).__name__}: {res}")
    return {"forest": forest, "errs": errs, "fns": fn_evidence(fns), "queries": ex.nqueries}


def match_known(known, msg):
    for e in known:
        if e.get("needle") and e["needle"] in msg: return e
    return None


def run(ctx):
    P = program(("pest",))
    known, _ = load_known("C04")
    nmax = int(os.environ.get("VERIF_C04_NODES", "4" if ctx.quick else "5"))
    K = int(os.environ.get("VERIF_C04_K", "4" if ctx.quick else "6"))
    fs = [f for n in range(0, nmax + 1) for f in forests(n, 3)]
    jobs = [(P, f, v, K) for f in fs for v in ("pairs", "flat", "tokens")]
    t0 = time.time()
    res = par.pmap(explore_view, jobs, NCPU)
    res2 = par.pmap(explore_static, [(P, f) for f in fs], NCPU)
    errs = [(j[1], j[2], r[1]) for j, r in zip(jobs, res) if r[0] == "err"] + [(f, "static", r[1]) for f, r in zip(fs, res2) if r[0] == "err"]
    if errs: raise Inconclusive(f"executor failed on {len(errs)} jobs, e.g. {errs[0][0]} {errs[0][1]}: {errs[0][2][:1500]}")
    res = [r[1] for r in res]; res2 = [r[1] for r in res2]
    paths = sum(len(r["rows"]) for r in res)
    ctx.log(f"{len(fs)} forests (<= {nmax} nodes, height <= 3) x 3 views x all interleavings of {K} operations: {paths} paths, {time.time()-t0:.1f}s")
    events = []; findings = []
    for r in res:
        for row in r["rows"]:
            if row.get("event"): events.append(f"{r['view']} {r['forest']}: {row['event']}"); continue
            for e in row["errs"]: findings.append((f"{r['view']} view of forest {r['forest']}: {e}", {"forest": r["forest"], "view": r["view"], "hist": row["hist"]}))
    for r in res2:
        for e in r["errs"]: findings.append((f"forest {r['forest']}: {e}", {"forest": r["forest"], "view": "static"}))
    for msg, rep in findings:
        hit = match_known(known, msg)
        if hit is not None:
            if not any(h[0] is hit for h in ctx.known_hits): ctx.known_hits.append((hit, hit["what"] + f" [witness: {msg[:200]}]"))
        elif len(ctx.violations) < 10:
            pth = save_replay(ctx, f"view-{abs(hash(msg)) % 10**8}.json", rep)
            ctx.violations.append((msg, pth, msg))
    samples = [{"forest": r["forest"], "view": r["view"], "history": r["rows"][-1].get("hist")} for r in res[::max(1, len(res) // 6)][:6] if r["rows"]]
    cov = {"states": paths, "transitions": paths * K, "traces_validated_against_impl": 0, "samples": samples, "exhaustive": True,
           "functions_encoded": sorted(set(f for r in res + res2 for f in r["fns"])),
           "bounds": f"every ordered forest with <= {nmax} nodes and height <= 3, built through the real PairsBuilder::{{new,rule,rule_with,tag,build}} over the input {INPUT!r} (one character per leaf, including a newline and a two-byte character); "
                     f"every interleaving of {K} operations next/next_back/len(+size_hint)/clone/peek on Pairs, FlatPairs and Tokens chosen by symbolic selectors; per pair: as_rule, as_str, as_span, line_col, into_inner().len(), as_node_tag; Pairs::single, Pairs::as_str; Display (plain and alternate) and Debug of every pair and of the top-level Pairs view against the text derived from the tree",
           "queries_discharged": sum(r["queries"] for r in res), "solver_time_s": round(sum(r["solver_s"] for r in res), 2), "events": events[:10],
           "explanation": "states = explored interleavings; exhaustive within the stated forest and history bounds"}
    write_evidence(ctx, "model_checking", cov,
                   ["spans are fixed by the forest (not symbolic); Display, Debug and to_json are outside the encoding (core::fmt / serde)",
                    "no native replay in this check; well-formedness of the token streams produced by parses is asserted in the C01/C03 runs only through the reference comparison",
                    "Rc, Vec, slice indexing summarised"], {"repo_hashes": repo_hashes(["pest/src/iterators/" + f for f in ("pairs.rs", "pair.rs", "flat_pairs.rs", "tokens.rs", "pairs_builder.rs", "line_index.rs")])})
    if ctx.violations: return
    if events: raise Inconclusive(f"{len(events)} events, e.g. {events[0]}")


def replay(ctx, path):
    d = json.load(open(path))
    P = program(("pest",))
    if d["view"] == "static":
        r = explore_static((P, d["forest"]))
        print(r["errs"][:5])
        bad = bool(r["errs"])
    else:
        r = explore_view((P, d["forest"], d["view"], len(d["hist"])))
        bad = any(row.get("hist") == d["hist"] and row.get("errs") for row in r["rows"])
        print([row for row in r["rows"] if row.get("hist") == d["hist"]][:1])
    if bad:
        print(f"VIOLATION property=C04 replay={path}"); return 1
    print("replay: holds"); return 0
