"""C06 — validation guarantees termination and accepts well-formed grammars (reduced form, DESIGN.md §5 C06).
For each grammar text of an enumerated family the real front-end runs natively. If it accepts, z3 searches all inputs of
up to N bytes for a path of the reference semantics that re-enters a rule (or iterates a repetition) at an unchanged
position — a sound non-termination witness for a deterministic PEG — and the witness is replayed on the real VM under a call
limit. Conversely, grammars satisfying the statement's syntactic sufficient condition must be accepted."""
import os, time, json, re, subprocess, itertools
import z3
from common import *
import native, par
from mirsym.interp import Explorer
from mirsym.values import *
from progsym import utf8_constraints, RefState, RefPanic
import pegsym
from pegsym import PegRef, NonTermination
from props import c01

# ---------------------------------------------------------------- structured grammar family
OPS = ["", "?", "*", "+", "{2}", "{2,}", "{,2}", "{1,2}", "!", "&"]
SINGLE = {"ANY", "ASCII_DIGIT", "ASCII_ALPHA", "NEWLINE"}


def txt(e):
    k = e[0]
    if k == "lit": return '"' + e[1] + '"'
    if k == "range": return "'a'..'z'"
    if k == "ref": return e[1]
    if k == "op":
        inner = txt(e[2])
        if e[2][0] in ("seq", "alt", "op") and not (e[2][0] == "op" and e[2][1] == ""): inner = "(" + inner + ")"
        if e[1] in ("!", "&"): return e[1] + inner
        if e[1] == "": return "(" + txt(e[2]) + ")"
        return inner + e[1]
    if k == "seq": return " ~ ".join(("(" + txt(x) + ")") if x[0] == "alt" else txt(x) for x in e[1])
    if k == "alt": return " | ".join(("(" + txt(x) + ")") if x[0] == "seq" and False else txt(x) for x in e[1])
    raise ValueError(k)


def begins_with_char(e, rules, depth=0):
    """definitely starts by matching at least one character (through a non-empty literal, range or 1-char built-in)"""
    k = e[0]
    if k == "lit": return len(e[1]) > 0
    if k == "range": return True
    if k == "ref":
        # a grammar rule shadows the non-keyword built-in of the same name: its body decides
        if e[1] in rules: return depth < 4 and begins_with_char(rules[e[1]][1], rules, depth + 1)
        return e[1] in SINGLE
    if k == "op":
        if e[1] in ("", "+", "{2}", "{2,}", "{1,2}"): return begins_with_char(e[2], rules, depth)
        return False
    if k == "seq": return begins_with_char(e[1][0], rules, depth)
    if k == "alt": return all(begins_with_char(x, rules, depth) for x in e[1])
    return False


def leftmost_refs(e, rules):
    """rule names that may be called before any character has been consumed (over-approximation)"""
    k = e[0]
    if k in ("lit", "range"): return set()
    if k == "ref": return {e[1]} if e[1] in rules else set()
    if k == "op": return leftmost_refs(e[2], rules)
    if k == "alt": return set().union(*[leftmost_refs(x, rules) for x in e[1]])
    if k == "seq":
        out = set()
        for x in e[1]:
            out |= leftmost_refs(x, rules)
            if begins_with_char(x, rules): break
        return out
    return set()


def subexprs(e):
    yield e
    if e[0] == "op": yield from subexprs(e[2])
    elif e[0] in ("seq", "alt"):
        for x in e[1]: yield from subexprs(x)


def sufficient(rules):
    """the statement's sufficient condition for acceptance"""
    for name, (mod, body) in rules.items():
        for s in subexprs(body):
            if s[0] == "op" and s[1] in ("*", "+", "{2}", "{2,}", "{,2}", "{1,2}") and not begins_with_char(s[2], rules): return False
            if s[0] == "alt" and not all(begins_with_char(x, rules) for x in s[1][:-1]): return False
        if name in ("WHITESPACE", "COMMENT") and not begins_with_char(body, rules): return False
    # no rule reaches itself before consuming a character
    reach = {n: leftmost_refs(b, rules) for n, (m, b) in rules.items()}
    for n in rules:
        seen = set(); todo = list(reach[n])
        while todo:
            x = todo.pop()
            if x == n: return False
            if x in seen: continue
            seen.add(x); todo += list(reach.get(x, ()))
    return True


def grammar(rules):
    return "\n".join(f"{n} = {m}{{ {txt(b)} }}" for n, (m, b) in rules.items())


def family(seed, count):
    import random
    rng = random.Random(seed)
    L = lambda s: ("lit", s)
    out = []
    targets = [("ref", "a"), ("ref", "b")]
    b_bodies = {"a": [("seq", [("ref", "a"), L("y")]), ("ref", "a"), ("op", "?", ("ref", "a"))], "b": [L("y")]}
    lefts = [None, L(""), ("op", "?", L("x")), ("op", "*", L("x")), ("op", "!", L("x")), ("op", "&", L("x")), ("ref", "SOI"), ("alt", [L("x"), L("")]), L("x"),
             ("op", "{,2}", L("x")), ("op", "?", ("ref", "c")), ("ref", "c"),
             ("op", "", ("seq", [("op", "?", L("x")), ("op", "!", L("y"))])), ("op", "", ("seq", [("op", "!", L("y")), ("op", "?", L("x"))])),
             ("op", "", ("alt", [("seq", [L("x"), L("y")]), ("op", "&", L("x"))])), ("op", "", ("seq", [("ref", "SOI"), ("op", "*", L("x"))])),
             ("op", "?", ("op", "", ("seq", [L("x"), L("y")]))), ("op", "", ("alt", [L("x"), ("op", "!", L("x"))]))]
    for X in targets:
        for op in OPS:
            core = ("op", op, X) if op else X
            for left in lefts:
                for right in (None, L("x")):
                    seq = [x for x in (left, core, right) if x is not None]
                    body = seq[0] if len(seq) == 1 else ("seq", seq)
                    for bb in (b_bodies["a"] if X[1] == "b" else [L("y")]):
                        rules = {"a": ("", body), "b": ("", bb), "c": ("", L("z"))}
                        out.append(rules)
                # in choices
                for alt in (("alt", [core, L("y")]), ("alt", [L("y"), core]), ("alt", [("seq", [L("y"), core]), core])):
                    out.append({"a": ("", alt), "b": ("", ("seq", [("ref", "a"), L("y")]) if X[1] == "b" else L("y")), "c": ("", L("z"))})
    # repetition bodies and WHITESPACE / COMMENT shapes
    bodies = [L(" "), ("op", "?", L(" ")), L(""), ("op", "!", L("x")), ("op", "*", L(" ")), ("ref", "c"), ("seq", [("op", "?", L(" ")), L("#")]), ("alt", [L(" "), L("")]),
              ("op", "+", L(" ")), ("ref", "SOI"), ("ref", "EOI"), ("seq", [("op", "&", L(" ")), ("ref", "ANY")]), ("op", "{,2}", L(" ")), ("ref", "NEWLINE")]
    for bd in bodies:
        for rep in ("*", "+", "{2,}", "{2}", "{,2}", "{1,2}"):
            out.append({"a": ("", ("seq", [("op", rep, bd), L("x")])), "b": ("", L("y")), "c": ("", ("op", "?", L("z")))})
            out.append({"a": ("@", ("op", rep, ("op", "", bd))), "b": ("", L("y")), "c": ("", L("z"))})
        for special in ("WHITESPACE", "COMMENT"):
            for mod in ("_", "", "@", "$"):
                out.append({"a": ("", ("seq", [L("x"), L("y")])), "b": ("", ("op", "*", L("y"))), "c": ("", ("op", "?", L("z"))), special: (mod, bd)})
    # a named rule that does not progress but can fail, reached twice in one expression (directly and through another rule)
    for cb in (("op", "&", L("x")), ("op", "!", L("z")), ("ref", "SOI"), ("ref", "EOI"), ("op", "&", ("ref", "ANY"))):
        for twice in (("seq", [("ref", "c"), ("ref", "c")]), ("seq", [("ref", "c"), ("ref", "b")]), ("seq", [("ref", "b"), ("ref", "c"), ("ref", "b")])):
            for rep in ("*", "+", "{2,}"):
                out.append({"a": ("", ("seq", [("op", rep, ("op", "", twice)), ("ref", "ANY")])), "b": ("", ("ref", "c")), "c": ("", cb)})
            out.append({"a": ("", ("alt", [("seq", [twice, ("ref", "a")]), ("ref", "ANY")])), "b": ("", ("ref", "c")), "c": ("", cb)})
            out.append({"a": ("", ("seq", [L("x"), L("y")])), "b": ("", ("ref", "c")), "c": ("", cb), "WHITESPACE": ("_", twice)})
    # the offending constructs below every operator (the validator reaches nested expressions through its own traversal):
    # a repetition whose body can match without consuming, and a choice with a non-failing earlier alternative
    for bd in (("op", "!", L("y")), L(""), ("op", "?", L(" "))):
        for rep in ("*", "+", "{2,}"):
            inner = ("seq", [L("x"), ("op", rep, ("op", "", bd))])
            for ctx in OPS:
                if not ctx: continue
                out.append({"a": ("", ("seq", [("op", ctx, ("op", "", inner)), L("w")])), "b": ("", L("y")), "c": ("", L("z"))})
                out.append({"a": ("", ("seq", [("op", ctx, ("op", "", ("alt", [L("z"), inner]))), L("w")])), "b": ("", L("y")), "c": ("", L("z"))})
            for c1, c2 in (("{1,2}", "?"), ("?", "{1,2}"), ("{2}", "{,2}"), ("!", "{1,2}"), ("{1,2}", "&")):
                out.append({"a": ("", ("seq", [("op", c1, ("op", "", ("seq", [("op", c2, ("op", "", inner)), L("v")]))), L("w")])), "b": ("", L("y")), "c": ("", L("z"))})
    for ctx in OPS:
        if not ctx: continue
        out.append({"a": ("", ("seq", [("op", ctx, ("op", "", ("seq", [L("x"), ("op", "", ("alt", [L(""), L("y")]))]))), L("w")])), "b": ("", L("y")), "c": ("", L("z"))})
    # a mutually left-recursive cycle that is first reached from an earlier rule outside it (directly / behind a nullable prefix)
    for left in (None, ("ref", "SOI"), ("op", "?", L("-")), ("op", "!", L("z")), ("op", "*", L(" "))):
        for entry in (("ref", "b"), ("ref", "c")):
            body_a = ("seq", [x for x in (left, entry, L("w")) if x is not None])
            out.append({"a": ("", body_a), "b": ("", ("alt", [("ref", "c"), L("x")])), "c": ("", ("seq", [("ref", "b"), L("y")]))})
            out.append({"a": ("", body_a), "b": ("", ("seq", [("op", "?", L("x")), ("ref", "c")])), "c": ("", ("alt", [("seq", [("ref", "b"), L("y")]), L("z")]))})
            out.append({"a": ("", ("alt", [body_a, L("v")])), "d": ("", ("ref", "b")), "b": ("", ("alt", [("ref", "c"), L("x")])), "c": ("", ("seq", [("ref", "d"), L("y")]))})
    # the deciding rule sits behind a long chain of references (the checks recurse through rule references)
    for depth in (33, 40, 70):
        chain = {f"k{i}": ("_", ("ref", f"k{i + 1}")) for i in range(depth)}
        out.append({"a": ("", ("seq", [L("x"), ("op", "*", ("ref", "k0")), L("y")])), **chain, f"k{depth}": ("_", ("op", "?", L("z")))})
        out.append({"a": ("", ("seq", [("ref", "k0"), ("ref", "a")])), **chain, f"k{depth}": ("_", ("op", "?", L("z")))})
        out.append({"a": ("", ("seq", [L("x"), L("y")])), "WHITESPACE": ("_", ("ref", "k0")), **chain, f"k{depth}": ("_", ("op", "?", L(" ")))})
        cyc = {f"k{i}": ("", ("alt", [("ref", f"k{(i + 1) % depth}"), L("z")])) for i in range(depth)}
        out.append({"a": ("", ("seq", [L("x"), ("ref", "k0")])), **cyc})
    # left recursion through a rule that redefines a non-keyword built-in name
    for nm in ("NEWLINE", "ASCII_DIGIT", "LETTER", "NUMBER", "ASCII_ALPHA"):
        out.append({nm: ("", ("alt", [("seq", [("ref", nm), L("+"), L("x")]), L("x")])), "b": ("", L("y"))})
        out.append({"a": ("", ("seq", [("ref", nm), L("y")])), nm: ("", ("alt", [("seq", [("ref", "a"), L("+")]), L("x")]))})
        out.append({"a": ("", ("seq", [("op", "?", L("-")), ("ref", nm)])), nm: ("", ("seq", [("ref", "a"), L("x")]))})
        out.append({"a": ("", ("seq", [("ref", nm), L("y")])), nm: ("", L("x"))})
        # ... and a rule of that name that can succeed without progress (a predicate): repeated, left-recursed through, as WHITESPACE
        for pred in (("op", "!", L("x")), ("op", "&", L("1"))):
            out.append({"a": ("", ("seq", [L("x"), ("op", "*", ("ref", nm))])), nm: ("", pred)})
            out.append({"a": ("", ("alt", [("seq", [("ref", nm), ("ref", "a")]), L("y")])), nm: ("_", pred)})
            out.append({"a": ("", ("seq", [L("x"), L("y")])), "WHITESPACE": ("_", ("ref", nm)), nm: ("", pred)})
            out.append({"a": ("", ("op", "+", ("seq", [("op", "?", L("y")), ("ref", nm)]))), nm: ("", pred)})
    rng.shuffle(out)
    # de-duplicate by text
    seen = set(); res = []
    for r in out:
        g = grammar(r)
        if g in seen: continue
        seen.add(g); res.append(r)
    return res[:count]


# ---------------------------------------------------------------- non-termination search on accepted grammars
def search(args):
    rules, starts, N = args
    found = []; paths = 0; nq = 0
    for start in starts:
        for n in range(N + 1):
            ex = Explorer()
            bs = [z3.BitVec(f"b{i}", 8) for i in range(n)]
            ex.add_base(*utf8_constraints(bs))

            def body(W):
                rs = RefState()
                try:
                    PegRef(W, list(bs), rules).call_rule(start, rs)
                    return None
                except NonTermination as e: return str(e)
                except RefPanic as e: return None
                except StepLimit as e: return "budget: " + str(e)

            for W, res in ex.explore(body):
                paths += 1
                if isinstance(res, Exception): found.append((start, None, f"event {res}")); continue
                if res:
                    m = W.get_model()
                    found.append((start, bytes(m.eval(b, model_completion=True).as_long() for b in bs).hex() or "-", res))
            nq += ex.nqueries
            if found: return {"found": found[:3], "paths": paths, "queries": nq}
    return {"found": [], "paths": paths, "queries": nq}


def native_nonterm(gtext, start, inp_hex, limit=20000):
    """run the real VM on the witness under a call limit, in its own process (an unbounded recursion may overflow the stack)"""
    b = native.build()
    req = f"0 {limit} {inp_hex} {start} {gtext.encode().hex()}\n"
    try:
        p = subprocess.run([b, "vm"], input=req, capture_output=True, text=True, timeout=120)
    except subprocess.TimeoutExpired:
        return True, "native VM did not finish within 120 s"
    if p.returncode != 0: return True, f"native VM process died (rc={p.returncode}): {p.stderr.strip()[-200:]}"
    out = p.stdout.strip()
    if "call limit reached" in out: return True, f"native VM: call limit {limit} reached on a {0 if inp_hex == '-' else len(inp_hex) // 2}-byte input"
    return False, "native VM: " + out[:200]


def match_known(known, gtext):
    for e in known:
        if e.get("pattern") and re.search(e["pattern"], gtext): return e
    return None


def run(ctx):
    native.build()
    known, _ = load_known("C06")
    N = int(os.environ.get("VERIF_C06_N", "2" if ctx.quick else "3"))
    count = int(os.environ.get("VERIF_C06_GRAMMARS", "6000"))
    fam = family(ctx.seed, count)
    texts = [grammar(r) for r in fam]
    stages = c01.front(texts)
    acc = [(r, t, s) for r, t, s in zip(fam, texts, stages) if "error" not in s]
    rej = [(r, t, s["error"]) for r, t, s in zip(fam, texts, stages) if "error" in s]
    panics = [x for x in rej if x[2].startswith("PANIC")]
    t0 = time.time()
    res = par.pmap(search, [(s["ast"], [n for n in r if n not in ("WHITESPACE", "COMMENT", "c", "d")][:2], N) for r, t, s in acc], NCPU)
    errs = [(acc[i][1], x[1]) for i, x in enumerate(res) if x[0] == "err"]
    if errs: raise Inconclusive(f"search failed on {len(errs)} grammars, e.g.\n{errs[0][0]}\n{errs[0][1][:1200]}")
    res = [x[1] for x in res]
    paths = sum(x["paths"] for x in res)
    ctx.log(f"{len(fam)} grammar texts: {len(acc)} accepted, {len(rej)} rejected; non-termination search on the accepted ones, inputs 0..{N}: {paths} paths, {time.time()-t0:.1f}s")
    nonterm = 0; unconfirmed = []
    for (r, t, s), x in zip(acc, res):
        for start, inp, why in x["found"]:
            if inp is None: unconfirmed.append((t, why)); continue
            nonterm += 1
            okk, detail = native_nonterm(t, start, inp)
            if not okk:
                unconfirmed.append((t, f"witness {inp}: {why}; {detail}")); continue
            what = f"accepted grammar does not terminate:\n{t}\nstart {start}, input {inp}: {why}; {detail}"
            hit = match_known(known, t)
            if hit is not None:
                if not any(h[0] is hit for h in ctx.known_hits): ctx.known_hits.append((hit, hit["what"] + f" [witness: start {start}, input {inp}, grammar {t!r}]"))
            elif len(ctx.violations) < 12:
                pth = save_replay(ctx, f"nonterm-{abs(hash(t)) % 10**8}.json", {"kind": "nonterm", "grammar": t, "start": start, "input": inp, "why": why})
                ctx.violations.append((what, pth, t))
            break
    # converse: sufficient condition => accepted
    conv = 0
    for r, t, err in rej:
        if sufficient({n: v for n, v in r.items()}):
            conv += 1
            what = f"grammar satisfies the sufficient condition (every repetition body, non-final alternative and recursion path begins with a character) but is rejected:\n{t}\n{err[:300]}"
            hit = match_known(known, t)
            if hit is not None:
                if not any(h[0] is hit for h in ctx.known_hits): ctx.known_hits.append((hit, hit["what"]))
            elif len(ctx.violations) < 12:
                pth = save_replay(ctx, f"rejected-{abs(hash(t)) % 10**8}.json", {"kind": "rejected", "grammar": t})
                ctx.violations.append((what, pth, t))
    suff_acc = sum(1 for r, t, s in acc if sufficient(r))
    cov = {"explanation": "accepted grammars of the family are searched (z3 over all inputs up to the bound) for a re-entry witness of the reference semantics; witnesses are replayed on the real VM under a call limit. Rejected grammars are checked against the syntactic sufficient condition.",
           "evaluations": len(fam), "distinct_nontrivial": len(acc), "accepted": len(acc), "rejected": len(rej), "front_end_panics": [x[1] for x in panics][:5],
           "paths": paths, "queries_discharged": sum(x["queries"] for x in res), "nonterminating_accepted": nonterm, "sufficient_and_accepted": suff_acc, "sufficient_but_rejected": conv,
           "samples": texts[:3] + [t for r, t, s in acc[:2]], "exhaustive": False,
           "bounds": f"{len(fam)} grammar texts (every operator around a leftmost self/mutual reference with every kind of left neighbour, in sequences and choices; repetition and WHITESPACE/COMMENT body shapes; seed {ctx.seed}); inputs 0..{N} bytes symbolic",
           "unconfirmed_witnesses": unconfirmed[:5]}
    write_evidence(ctx, "other", cov,
                   ["the validator itself runs natively on concrete grammar texts (it cannot be executed symbolically: HashMap/format!/Span trees); z3 decides only the existence of a non-termination witness among all inputs up to the bound",
                    "a re-entry of a rule (or a repetition iteration) at an unchanged position, stack depth and mode is a sound non-termination witness for a deterministic PEG",
                    "grammars without stack built-ins only; the sufficient condition is computed on the generator's own structure (30 lines in this file)"],
                   {"repo_hashes": repo_hashes(["meta/src/validator.rs"])})
    if ctx.violations: return
    if unconfirmed: raise Inconclusive(f"{len(unconfirmed)} non-termination witnesses not confirmed natively, e.g. {unconfirmed[0]}")


def replay(ctx, path):
    d = json.load(open(path))
    if d["kind"] == "rejected":
        st = c01.front([d["grammar"]])[0]
        print(st.get("error", "accepted"))
        if "error" in st:
            print(f"VIOLATION property=C06 replay={path}"); return 1
        return 0
    st = c01.front([d["grammar"]])[0]
    if "error" in st:
        print("grammar is now rejected:", st["error"][:200]); return 0
    okk, detail = native_nonterm(d["grammar"], d["start"], d["input"])
    print(detail)
    if okk:
        print(f"VIOLATION property=C06 replay={path}"); return 1
    return 0
