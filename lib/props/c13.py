"""C13 — operator-precedence parsers build the precedence-correct tree (engine M on the MIR of pest/src/pratt_parser.rs and
prec_climber.rs; token kinds are symbolic selectors, the operator table is built through the real .op(a | b) calls)."""
import os, time, json, itertools, random
import z3
from common import *
import par
from mirsym.setup import program, fn_evidence
from mirsym.interp import Explorer, Interp
from mirsym.values import *
from mirsym.summaries import S, summary

AFFIX = ["prefix", "postfix", "infixl", "infixr"]

# ---- stub pairs: the Pratt code only asks a pair for its rule
S13 = dict(S)
S13["Pair::as_rule"] = S13["pair::Pair::as_rule"] = lambda I, p: I.deref(p).f[0]


def mk_pair(rule, idx): return Agg([rule, idx], "Pair")


def tree(*a): return Agg(list(a), "Tree")


def show(t, kinds):
    if type(t) is Agg and t.ty == "Tree": return "(" + " ".join(show(x, kinds) for x in t.f) + ")"
    if type(t) is Agg and t.ty == "Pair": return f"{kinds[t.f[1]]}#{t.f[1]}"
    return str(t)


def leaves(t, out):
    if type(t) is Agg and t.ty == "Tree":
        for x in t.f: leaves(x, out)
    elif type(t) is Agg and t.ty == "Pair": out.append(t.f[1])
    return out


# ---- reference: shunting-yard with the binding powers of the statement
def shunting_yard(kinds, table):
    """kinds: list of ints (0 operand, i>=1 operator i); table: {op: (affix, level)} level 1.. (higher binds tighter).
    returns tree string or None if the sequence is not well formed"""
    P = lambda op: table[op][1] * 10 + 10
    out = []; ops = []          # ops entries: (op, pos, kind) kind in 'pre','in'
    def rb(op):
        a = table[op][0]
        return P(op) if a == "infixl" else P(op) - 1
    def reduce():
        op, pos, kind = ops.pop()
        if kind == "pre":
            x = out.pop(); out.append(f"(pre {op}#{pos} {x})")
        else:
            r = out.pop(); l = out.pop(); out.append(f"(in {l} {op}#{pos} {r})")
    expect_operand = True
    for pos, k in enumerate(kinds):
        if expect_operand:
            if k == 0: out.append(f"(prim 0#{pos})"); expect_operand = False
            elif table[k][0] == "prefix": ops.append((k, pos, "pre"))
            else: return None
        else:
            if k == 0 or table[k][0] == "prefix": return None
            lp = P(k)
            while ops and rb(ops[-1][0]) >= lp: reduce()
            if table[k][0] == "postfix":
                x = out.pop(); out.append(f"(post {x} {k}#{pos})")
            else:
                ops.append((k, pos, "in")); expect_operand = True
    if expect_operand: return None
    while ops: reduce()
    return out[0] if len(out) == 1 else None


def build_pratt(I, levels, table):
    """levels: list of lists of op ids (lowest precedence first) -> PrattParser value via the real new()/op()/bitor()"""
    pp = I.call("", "PrattParser::new", [])
    for lv in levels:
        chain = None
        for op in lv:
            a = table[op][0]
            if a == "prefix": o = I.call("", "Op::prefix", [op])
            elif a == "postfix": o = I.call("", "Op::postfix", [op])
            else: o = I.call("", "Op::infix", [op, Enum("Assoc", "Left", 0) if a == "infixl" else Enum("Assoc", "Right", 1)])
            chain = o if chain is None else I.call("", "<Op as BitOr>::bitor", [chain, o])
        pp = I.call("", "PrattParser::op", [pp, chain])
    return pp


def closures():
    prim = PyClosure(lambda I, p: tree("prim", p), "primary")
    pre = PyClosure(lambda I, p, x: tree("pre", p, x), "prefix")
    post = PyClosure(lambda I, x, p: tree("post", x, p), "postfix")
    inf = PyClosure(lambda I, l, p, r: tree("in", l, p, r), "infix")
    return prim, pre, post, inf


def explore_table(args):
    P, levels, table, L, which = args
    nops = len(table)
    ex = Explorer(max_steps=400_000)
    ks = [z3.BitVec(f"k{i}", 8) for i in range(L)]
    for k in ks: ex.add_base(z3.ULE(k, nops))
    if which == "climber-wf":
        # only the well-formed shape operand (operator operand)*: longer sequences at the price of the ill-formed ones
        which = "climber"
        for i, k in enumerate(ks): ex.add_base(k == 0 if i % 2 == 0 else k != 0)
    rows = []; fns = set()

    def body(W):
        I = Interp(P, W, S13)
        pairs = VecObj([mk_pair(ks[i], i) for i in range(L)])
        it = Agg([pairs, 0], "ListIter")
        prim, pre, post, inf = closures()
        out = {}
        try:
            if which == "pratt":
                pp = build_pratt(I, levels, table)
                m = I.call("", "PrattParser::map_primary", [Ptr(Cell(pp)), prim])
                m = I.call("", "PrattParserMap::map_prefix", [m, pre])
                m = I.call("", "PrattParserMap::map_postfix", [m, post])
                m = I.call("", "PrattParserMap::map_infix", [m, inf])
                out["t"] = I.call("", "PrattParserMap::parse", [Ptr(Cell(m)), it])
            elif which == "const":
                n = sum(len(l) for l in levels)
                W.user["consts"] = {"N": n}
                arr = []
                for lv in levels:
                    for j, op in enumerate(lv):
                        a = table[op][0]
                        if a == "prefix": o = I.call("", "Op::prefix", [op])
                        elif a == "postfix": o = I.call("", "Op::postfix", [op])
                        else: o = I.call("", "Op::infix", [op, Enum("Assoc", "Left", 0) if a == "infixl" else Enum("Assoc", "Right", 1)])
                        arr.append(Agg([o, j == 0], "tuple"))
                cp = I.call("", "ConstPrattParser::new_const", [Agg(arr, "array")])
                m = I.call("", "ConstPrattParser::map_primary", [Ptr(Cell(cp)), prim])
                m = I.call("", "PrattParserMap::map_prefix", [m, pre])
                m = I.call("", "PrattParserMap::map_postfix", [m, post])
                m = I.call("", "PrattParserMap::map_infix", [m, inf])
                out["t"] = I.call("", "PrattParserMap::parse", [Ptr(Cell(m)), it])
            else:
                opsv = []
                for lv in levels:
                    chain = None
                    for op in lv:
                        o = I.call("", "Operator::new", [op, Enum("Assoc", "Left", 0) if table[op][0] == "infixl" else Enum("Assoc", "Right", 1)])
                        chain = o if chain is None else I.call("", "<Operator as BitOr>::bitor", [chain, o])
                    opsv.append(chain)
                pc = I.call("", "PrecClimber::new", [VecObj(opsv)])
                out["t"] = I.call("", "PrecClimber::climb", [Ptr(Cell(pc)), it, prim, inf])
        except Panic as e:
            out["panic"] = str(e)
        fns.update(I.fn_used)
        # make every token kind concrete on this path (forks), then the reference is a concrete computation
        out["kinds"] = [W.choose(k) for k in ks]
        return out

    for W, res in ex.explore(body):
        if isinstance(res, Exception):
            rows.append({"event": f"{type(res).__name__}: {res}"}); continue
        kinds = res["kinds"]
        want = shunting_yard(kinds, table)
        got = None if "panic" in res else show(res["t"], kinds)
        if got is not None and leaves(res["t"], []) != list(range(len(kinds))):
            got += " [tokens used: " + str(leaves(res["t"], [])) + "]"
        rows.append({"kinds": kinds, "got": got, "want": want, "panic": res.get("panic")})
    return {"levels": levels, "table": {k: v[0] for k, v in table.items()}, "L": L, "which": which, "rows": rows, "queries": ex.nqueries, "solver_s": ex.solver_time, "fns": fn_evidence(fns)}


def tables(k, infix_only=False):
    """all tables with k operators: affix per operator x composition of the k operators into consecutive levels"""
    out = []
    aff = ["infixl", "infixr"] if infix_only else AFFIX
    comps = []
    def rec(rest, cur):
        if not rest: comps.append(cur); return
        for n in range(1, len(rest) + 1): rec(rest[n:], cur + [rest[:n]])
    rec(list(range(1, k + 1)), [])
    for levels in comps:
        for affs in itertools.product(aff, repeat=k):
            table = {}
            for li, lv in enumerate(levels):
                for op in lv: table[op] = (affs[op - 1], li + 1)
            if infix_only and any(len({table[o][0] for o in lv}) > 1 for lv in levels): continue    # one associativity per level
            out.append((levels, table))
    return out


def run(ctx):
    P = program(("pest",))
    rng = random.Random(ctx.seed)
    jobs = []
    Lq = int(os.environ.get("VERIF_C13_L", "5" if ctx.quick else "6"))
    t2 = tables(2); t3 = tables(3); rng.shuffle(t3)
    sel = t2 + t3
    if not ctx.quick:
        t4 = tables(4); rng.shuffle(t4); sel += t4[:150]
    for levels, table in sel:
        lmax = Lq if (len(table) <= 2 or not ctx.quick) else min(Lq, 4)
        for L in range(1, lmax + 1):
            jobs.append((P, levels, table, L, "pratt"))
        jobs.append((P, levels, table, min(lmax, 5) if len(table) <= 2 else min(lmax, 4), "const"))
    c2 = tables(2, True) + tables(3, True)
    for levels, table in c2:
        for L in (1, 3, 5) + ((7,) if not ctx.quick else ()):
            jobs.append((P, levels, table, L, "climber"))
        # three operators between four operands (low, high, in-between needs them), and four between five: well-formed shape only
        if len(table) == 3:
            jobs.append((P, levels, table, 7, "climber-wf"))
            if not ctx.quick: jobs.append((P, levels, table, 9, "climber-wf"))
    t0 = time.time()
    res = par.pmap(explore_table, jobs, NCPU)
    errs = [(j[1:], r[1]) for j, r in zip(jobs, res) if r[0] == "err"]
    if errs: raise Inconclusive(f"executor failed on {len(errs)} jobs, e.g. {errs[0][0]}: {errs[0][1][:1500]}")
    results = [r[1] for r in res]
    paths = sum(len(r["rows"]) for r in results)
    wf = 0; events = []
    for r in results:
        for row in r["rows"]:
            if row.get("event"): events.append(f"{r['which']} {r['table']}: {row['event']}"); continue
            want, got = row["want"], row["got"]
            if r["which"] == "climber" and want is not None:
                pass
            if want is None:
                continue          # not a well-formed sequence: outside the property (the parsers panic or stop early)
            wf += 1
            if got != want and len(ctx.violations) < 10:
                what = f"{r['which']} with levels {r['levels']} affixes {r['table']} on token kinds {row['kinds']}: built {got or ('panic: ' + str(row['panic']))}, precedence-correct tree is {want}"
                pth = save_replay(ctx, f"pratt-{abs(hash(str(r['table']) + str(row['kinds']))) % 10**8}.json", {"which": r["which"], "levels": r["levels"], "table": r["table"], "kinds": row["kinds"], "want": want})
                ctx.violations.append((what, pth, str(row["kinds"])))
    ctx.log(f"{len(sel)} operator tables (+{len(c2)} infix-only for PrecClimber), sequences up to {Lq} tokens: {paths} paths, {wf} well-formed sequences compared, {time.time()-t0:.1f}s")
    samples = [{"parser": r["which"], "levels": r["levels"], "affixes": r["table"], "kinds": row["kinds"], "tree": row["got"]} for r in results[::max(1, len(results) // 6)][:6] for row in r["rows"][-1:] if row.get("kinds")]
    cov = {"states": paths, "transitions": wf, "traces_validated_against_impl": 0, "samples": samples, "exhaustive": False,
           "functions_encoded": sorted(set(f for r in results for f in r["fns"])),
           "bounds": f"PrattParser: all tables with 2 and with 3 operators (3-operator tables with sequences up to 4 tokens in the quick tier){'' if ctx.quick else ' + 150 seeded with 4'} (every affix/associativity per operator, every split into levels, built through the real Op::*/BitOr/op calls) x all sequences of 1..{Lq} tokens with symbolic kinds; ConstPrattParser: same tables, length {min(Lq, 5)}; PrecClimber: all infix-only tables with 2-3 operators, one associativity per level, lengths 1,3,5{'' if ctx.quick else ',7'} with every token kind symbolic, and the well-formed shape operand (operator operand)* of length 7{'' if ctx.quick else ' and 9'} for the 3-operator tables",
           "queries_discharged": sum(r["queries"] for r in results), "solver_time_s": round(sum(r["solver_s"] for r in results), 2), "events": events[:10],
           "explanation": "states = explored paths (token-kind classes); transitions = well-formed sequences whose tree was compared with the shunting-yard reference"}
    write_evidence(ctx, "model_checking", cov,
                   ["pairs are stubs that only answer as_rule() (the Pratt code asks nothing else of a well-formed sequence); result type is a tree built by host closures, so 'applies each operator exactly once, operands in order' is read off the tree",
                    "reference: shunting-yard with right power p for left-associative infix and p-1 for right-associative/prefix (lib/props/c13.py)", "no native replay: the code under test is pure MIR with BTreeMap::{insert,get} summarised"],
                   {"repo_hashes": repo_hashes(["pest/src/pratt_parser.rs", "pest/src/prec_climber.rs"])})
    if ctx.violations: return
    if events: raise Inconclusive(f"{len(events)} events, e.g. {events[0]}")


def replay(ctx, path):
    d = json.load(open(path))
    P = program(("pest",))
    table = {int(k): (v, next(i + 1 for i, lv in enumerate(d["levels"]) if int(k) in lv)) for k, v in d["table"].items()}
    r = explore_table((P, d["levels"], table, len(d["kinds"]), d["which"]))
    for row in r["rows"]:
        if row.get("kinds") == d["kinds"]:
            print("built:", row["got"], "| want:", row["want"])
            if row["got"] != row["want"]:
                print(f"VIOLATION property=C13 replay={path}"); return 1
    print("replay: holds"); return 0
