#!/bin/sh
# usage: lib/seedwave.sh <ID> <crate> <crate-dir> <PROP> [<PROP>...]
# confirms the sub-agent's change (/tmp/seed/out/<ID>) in its scratch worktree and, at the same time, runs the quick checks against it
# on another scratch worktree (lib/seedtool.py pcheck); both in the background, results in /tmp/seed/out/<ID>/{confirm,checkN}.json
id=$1; crate=$2; dir=$3; shift 3
cd "$(dirname "$0")/.."
n=1; while [ -e /tmp/seed/out/$id/check$n.json ]; do n=$((n+1)); done
[ -e /tmp/seed/out/$id/confirm.json ] || (python3-vt lib/seedtool.py confirm $id $crate $dir/tests/seed_demo.rs > /tmp/seed/out/$id/confirm.json 2>/tmp/seed/out/$id/confirm.err &)
(VERIF_JOBS=${VERIF_JOBS:-4} python3-vt lib/seedtool.py pcheck $id "$@" > /tmp/seed/out/$id/check$n.json 2>/tmp/seed/out/$id/check$n.err &)
