#!/usr/bin/env python3-vt
"""Regenerates /verif/MANIFEST.json from the table below and validates it against the schema."""
import json, os, sys
V = os.path.dirname(os.path.dirname(os.path.abspath(__file__)))

CHECKS = {
 "C16": dict(level="model_checking", design="§5 C16", engine="K+M",
   technique="Kani/CBMC bounded model checking of the compiled trie lookups with the code point fully symbolic (SAT verdict over all 1,112,064 scalar values)",
   text="For c: char = kani::any() (every Unicode scalar value, no sampling) CBMC proves: exactly one of the 30 two-letter general-category functions is true; each of the 8 grouped categories equals the disjunction of its members; at most one script function is true. The claim is exhaustive in the code point; there is no loop bound involved beyond the harness' own counters. Name resolution: pest::unicode::by_name is executed from MIR (engine M) with the name a symbolic string constrained to the advertised names of each length; every feasible path must return Some of the table entry carrying that identifier.",
   note="Trusted: Kani's MIR->goto translation, CBMC, cadical. No stubs in the K harnesses. For by_name the three BY_NAME tables are read from the generated source files (rustc's allocations are not in the MIR dump) and that a table entry's trie is the function's trie is by construction of the property_functions! macro. The VM/generated access paths and the validator's name list are not decided (see DESIGN.md §5 C16)."),
 "C10": dict(level="model_checking", design="§5 C10", engine="K+M",
   technique="Kani/CBMC bounded model checking of Position/Span code over every valid UTF-8 string up to N bytes and every offset (SAT verdict), counterexamples replayed natively by concrete playback",
   text="For every valid UTF-8 string of at most N bytes (N=4 quick, 6 thorough; validity decided by the real core::str::from_utf8 inside the harness, so multi-byte, CR, LF, CRLF, tabs all included) and every usize offset / offset pair / RangeBounds form, CBMC proves Position::new, line_col, line_of, Span::new, Span::get, merge_spans (and lines_span in the thorough tier) equal short reference definitions and never panic. Unwinding assertions are on, so the loop bounds are checked, not assumed. In addition engine M executes LineIndex::new / LineIndex::line_col (what Pair::line_col uses) and Position::line_col from MIR on every valid UTF-8 text of 0..5 (quick) / 7 (thorough) symbolic bytes and every char-boundary offset and compares both with the newline/character count.",
   note="Trusted: Kani translation, CBMC. Outside the claim: strings longer than the bounds; the line/column fields and the rendered text of Error (format!). 'Overlap' for lines_span is read as closed interval, see DESIGN.md §5 C10."),
 "C11": dict(level="model_checking", design="§5 C11", engine="M",
   technique="symbolic execution of the MIR of pest/src/stack.rs (operation selectors and elements as z3 bit-vectors, z3 deciding every branch and every equality with the naive model), plus a one-step inductive check from every representation state within size bounds; every path replayed on the compiled crate",
   text="(a) All histories of N operations (N=6 quick, 8 thorough) from Stack::new(), selectors symbolic over the six operations and elements symbolic u8: after every operation z3 proves contents, len, peek and popped elements equal to the naive copy-per-snapshot model and that no MIR assert (overflow, bounds) can fail. (b) Inductive step: from every representation state (|cache|,|popped|<=4/5, <=3/4 snapshots) satisfying the stated invariant, one arbitrary operation preserves the invariant and commutes with the model under the abstraction function, which extends (a) to histories of any length whose states stay within those sizes. A step counterexample is reported only if its pre-state is reached by a real history and the failure reproduces through the public API.",
   note="Trusted: the MIR dump corresponds to the compiled code; the executor; summaries of Vec operations over a python list (every explored path is replayed natively against pest::Stack<u8> and any disagreement makes the check inconclusive); z3. Element type fixed to u8."),
 "C03": dict(level="model_checking", design="§5 C03", engine="M+K",
   technique="symbolic execution of the MIR of ParserState/Position/Stack driven by enumerated combinator trees on fully symbolic UTF-8 input (z3 decides every branch), compared path by path with an executable reading of the documented contracts; Kani harnesses for skip/skip_until/start/end-of-input on the compiled code with and without memchr",
   text="For each program tree of the family (every leaf operation, wraps, pairs and seeded random trees up to depth 3/4; 400 quick / 3000 thorough) and every valid UTF-8 input of 0..N bytes (N=4/5, all bytes symbolic), every feasible path of the real combinator code is explored; on each path the final position, token queue, stack contents, look-ahead and atomicity state must equal the reference semantics, every failed sequence and every look-ahead must leave (position, tokens, stack) as before, and every path is replayed on the compiled crate. stack_match_peek_slice is additionally run with symbolic i32 indices over their full range.",
   note="Trusted: MIR dump = compiled code; the executor and its std/memchr summaries (every explored path is re-run natively with the real memchr and any disagreement makes the check inconclusive); the reference semantics in lib/progsym.py; z3; Kani/CBMC for the K harnesses. The program family is enumerated, not symbolic; inputs beyond N bytes are outside the claim."),
 "C12": dict(level="model_checking", design="§5 C12", engine="M",
   technique="symbolic execution of the MIR of ParserState + pest::state() with the call limit as a symbolic usize (z3 forks on current >= limit), dual run (no limit / symbolic limit) on the same symbolic input inside one path",
   text="For each program tree (400/3000) and every valid UTF-8 input of 0..N bytes (N=3/4) the program is executed through the real pest::state() once without a limit and once with a symbolic limit L >= 1; z3 enumerates every feasible (input class, limit class) pair and the limited result must be identical to the unlimited one or be the 'call limit reached' error. One exploration therefore covers every limit value, including those beyond the number of calls needed. Every joint path is replayed natively with a concrete L from the model.",
   note="Trusted as for C03. pairs::new and Error::new_from_pos are replaced by records of their arguments inside state() (they are exercised by C04/C10); grammars (VM / generated parsers) are covered only as far as they reduce to these combinators."),
 "C15": dict(level="model_checking", design="§5 C15", engine="M",
   technique="symbolic execution of the MIR of ParserState + pest::state() with ERROR_DETAIL off and on over the same symbolic input inside one path; z3 decides the joint path conditions",
   text="For each program tree (400/3000) and every valid UTF-8 input of 0..N bytes (N=3/4) both configurations are executed from the MIR; success, tokens, stack, error position and sorted positives/negatives must agree, the flag-on run must not panic (MIR overflow/bounds asserts included) and ParseAttempts::max_position must be a char boundary inside the input. Every run is replayed natively, where the error is also rendered.",
   note="Trusted as for C03. Rendering of the help message is only exercised concretely by the native replay of each path (a panic there is reported), not symbolically."),
 "C01": dict(level="translation_validation", design="§5 C01", engine="M",
   technique="symbolic execution of the MIR of pest_vm (Vm::parse_rule/parse_expr/skip) and of the pest runtime on fully symbolic UTF-8 input for each grammar of an enumerated family, compared path by path (z3 deciding every branch) with the reference PEG semantics evaluated on the unoptimized rules",
   text="For each grammar text of the family (systematic operator/modifier/WHITESPACE/COMMENT/stack shapes plus seeded random expressions; 90 quick / 1200 thorough, default features and grammar-extras) the real front-end (parse, validate, optimize) runs natively; the optimized rules are loaded into the executor's heap as the Vm value and Vm::parse_rule is executed from MIR for start rules a and b on every valid UTF-8 input of 0..N bytes (N=4/5). On every path acceptance, consumed length, token tree with rule names and tags, and final stack are compared with the reference semantics (lib/pegsym.py) of the *unoptimized* rules; every path is replayed against the compiled pest_vm.",
   note="Trusted: MIR dump = compiled code; executor and summaries (validated per path natively on acceptance, tokens and tags); the reference semantics; z3. Grammars are enumerated, inputs bounded by N, Unicode property built-ins excluded (C16). Three known findings (lister rewrite, unroll trailing skip, tag on pairless expression) are matched by attributing the deviation to a pipeline stage on the witness input; anything not so attributable is a violation."),
 "C05": dict(level="translation_validation", design="§5 C05", engine="M",
   technique="translation validation of each optimizer pass's actual output: the real pass runs natively on each grammar of an enumerated family, then z3 decides, over fully symbolic UTF-8 input up to N bytes, the equivalence of the reference semantics of the rules before and after the pass (restore_on_err: after-side executed by the real VM from MIR)",
   text="For every grammar of the family (shapes aimed at each rewrite and near-miss permutations of each rewrite pattern, all bounded repetitions, stack operations under choice/optional/repetition, plus the seeded C01 family; 600 quick / 1600 thorough) each of rotate, skip, unroll, concatenate, factor, list runs through the real code (cfg-guarded hook) alone and in its pipeline position; wherever a pass changed the rules, acceptance, consumed length, tokens and final stack of before/after are compared on every input class of 0..N bytes (N=3/5). restore_on_err is validated by running the real VM (MIR) on its output against the reference on its input. The whole pipeline against the VM is C01.",
   note="What is executed symbolically is the semantics of the pass's input and output, not the pass (its input is a grammar, which cannot be made symbolic at useful size): a pass is only validated on the enumerated grammars. Trusted: reference semantics, z3, for restore_on_err the executor as in C01. Known findings: list rewrite, unroll trailing implicit skip."),
 "C06": dict(level="other", design="§5 C06", engine="M",
   technique="real validator run natively on an enumerated family of grammar texts; for each accepted grammar z3 searches every input up to N bytes for a path of the reference PEG semantics that re-enters a rule or iterates a repetition without consuming (sound non-termination witness), replayed on the real VM under a call limit; rejected grammars are checked against the syntactic sufficient condition",
   text="Reduced form of the property: the validator cannot be executed symbolically (ParserRule trees, HashMap, format!), so it runs natively on 500 (quick) / 4000 (thorough) grammar texts: every operator (? * + {n} {n,} {,n} {m,n} ! & parentheses) around a leftmost self or mutual reference, with every kind of nullable / non-progressing / progressing left neighbour, in sequences and choices, plus repetition-body and WHITESPACE/COMMENT-body shapes. For accepted grammars the solver decides over all inputs of 0..N bytes (N=2/3) whether the reference semantics can re-enter a rule at an unchanged (position, stack depth, mode); a witness is confirmed by the real VM exhausting a call limit or its stack. Grammars meeting the statement's sufficient condition must be accepted.",
   note="Exhaustive only over the enumerated family and input bound. Trusted: reference semantics; the sufficient-condition predicate (30 lines); z3. Grammars using stack built-ins are outside the property."),
 "C08": dict(level="model_checking", design="§5 C08", engine="M",
   technique="symbolic execution of the MIR of Vm::parse + pest::state() + ParserState::{rule,track} on fully symbolic input; on every failing path the reported position and rule lists are checked against the attempt log of the reference semantics evaluated on the same path condition",
   text="For derive/tests/reporting.pest (nine start rules) and the seeded grammar family (120 quick / 1000 thorough) and every valid UTF-8 input of 0..N bytes (N=3/5): every failing path of the real VM is checked: the reported position is the furthest position at which a reportable rule failed (or matched under negation), 0 if none; each expected rule failed exactly there outside negation, each unexpected rule matched exactly there under negation; both lists are sorted, duplicate-free and not both empty when a reportable failure exists. The error (position, positives, negatives) of every path is compared with the compiled VM's.",
   note="VM back-end only. The statement's replacement rule for nested attempts (parent instead of children unless exactly one) is not re-derived by the oracle: only its soundness consequences are checked. Trusted as for C01."),
 "C02": dict(level="translation_validation", design="§5 C02", engine="M",
   technique="the Rust source emitted by pest_generator for each grammar is compiled in a driver crate; its MIR and the MIR of pest_vm (running the optimized rules of the same grammar) are executed symbolically on the same fully symbolic input inside one path, both through the real pest::state(); z3 decides the joint path conditions and the results are compared",
   text="For each grammar of the family (divergence-targeted shapes: every modifier on WHITESPACE and COMMENT, user rules named like non-keyword built-ins, stack operations, predicates, skip patterns, node tags with grammar-extras; plus the seeded family; 150 quick / 1200 thorough per feature set) and start rules a, b, on every valid UTF-8 input of 0..N bytes (N=3/5): identical token pairs and tags on success, identical error position and identical sets of expected/unexpected rules on failure. Both sides are the real code (no reference model); every joint path is replayed on the compiled VM and on the compiled generated parser.",
   note="Trusted: generator output taken as text from pest_generator::derive_parser (what the derive macro compiles); MIR = compiled code; executor summaries (validated by the double native replay); z3. Rule lists are compared as sets (the back-ends order them differently by construction). Unicode property rules are not in the family."),
 "C18": dict(level="model_checking", design="§5 C18", engine="M",
   technique="symbolic execution of the MIR of the parser generated from json.pest (and of the pest runtime) on fully symbolic UTF-8 input and on templates with symbolic holes; every path compared with an RFC 8259 recogniser evaluated on the same path condition; z3 decides every branch",
   text="Every valid UTF-8 input of 0..N bytes (N=4 quick, 6 thorough; all bytes symbolic) and 41 templates (arrays, objects, members, strings with escapes and \\uXXXX, numbers with fraction/exponent, literals, surrounding whitespace, near-misses such as leading zeros, bare signs, trailing commas, control characters, truncated literals) with 1-4 symbolic ASCII holes: the JSON parser accepts on a path iff the RFC 8259 recogniser does, and on acceptance the whole token tree (json, value, object, pair, array, string, number, bool, null, EOI with exact byte spans) is identical. Every path is replayed on the compiled generated parser.",
   note="The parser is regenerated from grammars/src/grammars/json.pest with the working tree's generator (the derive macro in pest_grammars expands to the same tokens). Trusted: the 120-line recogniser in lib/props/c18.py, executor + summaries (validated per path), z3. Deeper documents than the bound only via templates."),
 "C14": dict(level="translation_validation", design="§5 C14", engine="M",
   technique="three parsers of the meta-grammar executed symbolically from MIR on the same symbolic text inside one path: the checked-in meta/src/grammar.rs (MIR of pest_meta), the parser freshly generated from meta/src/grammar.pest, and pest_vm on the optimized rules of grammar.pest; z3 decides the joint path conditions",
   text="For start rule grammar_rules and 7 (quick) / 15 (thorough) sub-rules, on every valid UTF-8 text of 0..N bytes (N=2/3, all bytes symbolic), and for 15/29 grammar templates (a small valid grammar with 1-2 symbolic ASCII holes in literals, escapes, counts, PEEK indices, modifiers, operators, comments, doc comments) fed to grammar_rules: the three parsers agree on acceptance, token tree, error position and expected/unexpected rule sets. Every joint path is replayed on the three compiled parsers.",
   note="Trusted as for C02. Fully symbolic text is short (the meta-grammar forks quickly); longer texts are reached only through the templates, i.e. near a fixed skeleton."),
 "C13": dict(level="model_checking", design="§5 C13", engine="M",
   technique="symbolic execution of the MIR of PrattParser/ConstPrattParser/PrattParserMap and PrecClimber with the kind of every token a symbolic selector (z3 forks on the BTreeMap/array lookups), result trees compared with a shunting-yard reference",
   text="Operator tables are built through the real Op::prefix/postfix/infix, BitOr and PrattParser::op (resp. ConstPrattParser::new_const, PrecClimber::new) code: all tables with 2 operators, 48 seeded (quick) / all (thorough) with 3, 150 seeded with 4 (thorough) - every affix and associativity per operator and every split into precedence levels. For every token sequence of 1..5 (quick) / 6 (thorough) tokens with symbolic kinds the tree built by the real parse() is compared, on each well-formed sequence, with the classical operator-precedence tree (right power p for left-associative infix, p-1 for right-associative and prefix); every token must be used exactly once in order. ConstPrattParser and (infix-only tables, one associativity per level) PrecClimber must give the same tree.",
   note="Pairs are stubs answering only as_rule(); mapping closures are host closures building a tree. BTreeMap::{insert,get}, Peekable, zip/fold summarised; no native replay for this check (pure table/recursion code). Longer sequences and larger tables are outside the claim."),
 "C07": dict(level="other", design="§5 C07", engine="M",
   technique="symbolic execution of the MIR of pest_meta's reader (checked-in meta-parser, consume_rules incl. validate_ast, unescape) on grammar texts with symbolic spacing bytes and symbolic literal characters; z3 decides every branch; compared with the abstract grammar that was written",
   text="(C) round trip: 60 (quick) / 400 (thorough) abstract rules covering every expression form, both nestings of every pair of operator levels (precedence, associativity), prefix-vs-postfix, counts and PEEK indices are written in concrete syntax with only the parentheses precedence requires; 2-3 of the token gaps are symbolic whitespace bytes (space/tab/newline), one literal character is symbolic, a leading | is added to choices; the real parse + consume_rules run from MIR and must return exactly the written rule (name, modifier, operator structure, literal contents, range bounds, counts, indices) on every path. (A) unescape() equals a reference unescaper on every well-formed escape sequence up to N bytes and on 15 escape templates; (B) every text the meta-parser accepts as a string/character token is unescaped or reported as a located error, never a panic.",
   note="Comments / doc comments in arbitrary positions, redundant parentheses and multi-rule grammars are exercised only by C14's templates, not here. Trusted: the writer in lib/props/c07.py (40 lines), summaries (native replay for (A); (C) violations are replayed through pest_meta's front-end), z3."),
 "C04": dict(level="model_checking", design="§5 C04", engine="M",
   technique="symbolic execution of the MIR of pest/src/iterators (Pairs, Pair, FlatPairs, Tokens, PairsBuilder, LineIndex) with the interleaving of next/next_back/len/peek chosen by symbolic selectors (z3 forks on them); every answer compared with the explicit tree",
   text="Every ordered forest with <= 4 (quick) / 5 (thorough) nodes and height <= 3 is built through the real PairsBuilder (rule, rule_with, tag, build); the produced queue must be balanced with matching partner indices. On the Pairs, FlatPairs and Tokens views every interleaving of 4 (quick) / 6 (thorough) operations next / next_back / len+size_hint / peek is executed from MIR and each answer (which pair or token, how many left) is compared with the tree; every yielded pair is checked for as_rule, as_str, as_span, line_col (against the newline/character count), into_inner().len() and as_node_tag; Pairs::single(pair) must be a one-pair view of that pair from both ends; Pairs::as_str must be the covered text.",
   note="Spans are fixed by the forest over one input containing a newline and a two-byte character (not symbolic). Display, Debug and JSON output are outside the encoding (core::fmt, serde). No native replay in this check; Rc/Vec/slice/partition_point summarised. Well-formedness of queues produced by parses is covered through the reference comparisons of C01/C03."),
 "C09": dict(level="other", design="§5 C09", engine="M",
   technique="symbolic execution of the MIR of the whole front-end pest_meta::parse_and_optimize (checked-in meta-parser, validate_pairs, consume_rules, validate_ast, optimize) on symbolic text and on near-miss templates with symbolic holes; z3 decides every branch; every path replayed natively where each error is also rendered",
   text="Reduced form of the property: every valid UTF-8 text of 0..N bytes (N=2 quick / 3 thorough) and 58 near-miss grammar templates (truncated constructs, stray bytes after every kind of token, odd escapes, unbalanced delimiters and comments, symbolic digits in counts and PEEK indices, out-of-range numbers, duplicate/undefined/keyword rule names, left recursion, empty repetitions) with 1-2 symbolic ASCII holes are run through the real parse_and_optimize from MIR. No path may panic (MIR asserts, unwrap/expect, unreachable included), the result is Ok(rules) or Err(non-empty list) and every error's location lies inside the text. The native replay of every path also renders each error under catch_unwind.",
   note="Not all strings: texts longer than N bytes only near the template skeletons; rule names are concrete (the validator's sets are keyed by them); generator/src/docs.rs is not encoded; 'bounded time' is the 8M-statement step budget per path, never reached. HashMap/HashSet/LazyLock summarised, format! is a placeholder string."),
}

NOT_APPLICABLE = {
 "C17": "Property quantifies over interleavings of two OS threads synchronised with park/unpark, a sync_channel, an AtomicBool and a Mutex; Kani/CBMC does not model Rust threads or those primitives and the MIR executor has no scheduler, so no solver-based encoding of the real debugger code is within reach (DESIGN.md §5 C17).",
}
PENDING = "check not built yet at this commit (work in progress; see DESIGN.md §9 for the order of work)"

def main():
    props = [json.loads(l)["id"] for l in open(os.path.join(V, "properties.jsonl"))]
    checks = []
    for pid in props:
        c = CHECKS.get(pid)
        if not c: continue
        checks.append({
            "property_id": pid,
            "quick_cmd": f"./check {pid} --tier quick",
            "thorough_cmd": f"./check {pid} --tier thorough",
            "evidence_file": f"/verif/evidence/{pid}.json",
            "replay_cmd_template": f"./check {pid} --replay {{path}}",
            "engine": c["engine"],
            "level_claimed": {"category": c["level"], "text": c["text"], "design_ref": c["design"]},
            "level_note": c["note"],
            "technique": c["technique"],
        })
    na = []
    for pid in props:
        if pid in CHECKS: continue
        na.append({"property_id": pid, "reason": NOT_APPLICABLE.get(pid, PENDING)})
    m = {
        "version": 1,
        "setup_cmd": "./setup.sh",
        "hooks": {
            "guard": "pest_parser_pest_verif",
            "enable": "RUSTFLAGS='--cfg pest_parser_pest_verif' (set by ./check for the harness crates that need a hook)",
            "baseline_off_cmd": "cd /repo && cargo test --workspace --no-fail-fast --offline",
            "source_commits": HOOK_COMMITS,
            "add_only": True,
        },
        "engines": [
            {"name": "K", "path": "/verif/kani + /verif/lib/kani.py", "serves_properties": [p for p, c in CHECKS.items() if "K" in c["engine"]],
             "kind_free_text": "Kani 0.68 / CBMC 6.11 proof harnesses compiled against /repo's working tree; symbolic inputs, unwinding assertions on, counterexamples replayed natively via concrete playback"},
            {"name": "M", "path": "/verif/lib/mirsym", "serves_properties": [p for p, c in CHECKS.items() if "M" in c["engine"]],
             "kind_free_text": "symbolic executor for rustc MIR (dumped from /repo on every run) with z3 deciding branch feasibility and property assertions; per-path native replay against the compiled crate"},
        ],
        "checks": checks,
        "not_applicable": na,
        "notes": "Exit codes: 0 held, 1 VIOLATION (natively reproduced), 2 inconclusive (never counted as a pass). See DESIGN.md.",
    }
    json.dump(m, open(os.path.join(V, "MANIFEST.json"), "w"), indent=1)
    import jsonschema
    jsonschema.validate(m, json.load(open("/root/.vp/MANIFEST.schema.json")))
    print("MANIFEST.json written:", len(checks), "checks,", len(na), "not_applicable")

HOOK_COMMITS = ["abfe286", "411154d", "c80bb74", "1a2cbbe"]
if __name__ == "__main__":
    main()
