"""Shared plumbing for /verif/check: evidence files, known findings, process helpers."""
import json, os, subprocess, sys, time, hashlib, shutil

VERIF = os.path.dirname(os.path.dirname(os.path.abspath(__file__)))
REPO = os.environ.get("VERIF_REPO", "/repo")
# the three output locations can be redirected (lib/seedregress.py runs the checks against a scratch copy of the repository
# without touching /verif/evidence); the registered commands never set these
WORK = os.environ.get("VERIF_WORK") or os.path.join(VERIF, ".work")
EVID = os.environ.get("VERIF_EVID") or os.path.join(VERIF, "evidence")
REPLAYS = os.environ.get("VERIF_REPLAYS") or os.path.join(VERIF, "replays")
GUARD = "pest_parser_pest_verif"
NCPU = int(os.environ.get("VERIF_JOBS", "16"))

ENV = dict(os.environ)
ENV["CARGO_NET_OFFLINE"] = "true"
ENV.pop("RUSTUP_TOOLCHAIN", None)


class Inconclusive(Exception):
    """the check could not decide (timeout, solver unknown, encoder gap): exit 2, never a pass."""


class Ctx:
    def __init__(self, prop, tier, seed):
        self.prop, self.tier, self.seed = prop, tier, seed
        self.t0 = time.time()
        self.violations = []       # (what, replay_path, key)
        self.known_hits = []       # (entry, what)
        self.notes = []
        self.quick = tier == "quick"

    def log(self, *a):
        print(f"[{self.prop} {time.time()-self.t0:7.1f}s]", *a, flush=True)


def sh(cmd, cwd=None, timeout=None, env=None, check=False, memlimit_kb=None):
    """run a command, return (rc, output). rc=-9 on timeout."""
    e = dict(ENV)
    if env: e.update(env)
    pre = None
    if memlimit_kb:
        import resource
        def pre():
            resource.setrlimit(resource.RLIMIT_AS, (memlimit_kb * 1024, memlimit_kb * 1024))
            os.setsid()
    else:
        pre = os.setsid
    p = subprocess.Popen(cmd, cwd=cwd, env=e, stdout=subprocess.PIPE, stderr=subprocess.STDOUT,
                         shell=isinstance(cmd, str), preexec_fn=pre, text=True, errors="replace")
    try:
        out, _ = p.communicate(timeout=timeout)
        rc = p.returncode
    except subprocess.TimeoutExpired:
        try:
            os.killpg(p.pid, 9)
        except Exception:
            pass
        out, _ = p.communicate()
        rc = -9
    if check and rc != 0:
        raise Inconclusive(f"command failed rc={rc}: {cmd}\n{out[-3000:]}")
    return rc, out


def file_hash(path):
    return hashlib.sha256(open(path, "rb").read()).hexdigest()[:16]


def repo_hashes(rel_paths):
    out = {}
    for r in rel_paths:
        p = os.path.join(REPO, r)
        if os.path.exists(p):
            out[r] = file_hash(p)
    return out


# ---------------- known findings ----------------
def load_known(prop):
    p = os.path.join(VERIF, "known_findings.json")
    if not os.path.exists(p):
        return [], []
    d = json.load(open(p))
    known = [e for e in d.get("known", []) if e["property"] == prop]
    fixed = [e for e in d.get("fixed", []) if e["property"] == prop]
    return known, fixed


# ---------------- evidence ----------------
def write_evidence(ctx, level, coverage, assumptions, extra=None):
    os.makedirs(EVID, exist_ok=True)
    ev = {
        "property_id": ctx.prop,
        "tier": ctx.tier,
        "seed": ctx.seed,
        "level": level,
        "coverage": coverage,
        "assumptions": assumptions,
        "wall_s": round(time.time() - ctx.t0, 2),
        "violations": len(ctx.violations),
        "known_findings_observed": [k[1] for k in ctx.known_hits],
        "notes": ctx.notes,
    }
    if extra: ev.update(extra)
    path = os.path.join(EVID, ctx.prop + ".json")
    tmp = path + ".tmp"
    json.dump(ev, open(tmp, "w"), indent=1, default=str)
    os.replace(tmp, path)
    return path


def finish(ctx):
    """print protocol lines and return exit code."""
    for entry, what in ctx.known_hits:
        print(f"KNOWN-FINDING: property={ctx.prop} {what}")
    for what, replay, _ in ctx.violations:
        print(f"VIOLATION property={ctx.prop} replay={replay}")
        print(f"  detail: {what}")
    return 1 if ctx.violations else 0


def save_replay(ctx, name, obj):
    d = os.path.join(REPLAYS, ctx.prop)
    os.makedirs(d, exist_ok=True)
    p = os.path.join(d, name)
    if isinstance(obj, str):
        open(p, "w").write(obj)
    else:
        json.dump(obj, open(p, "w"), indent=1, default=str)
    return p


def copy_lockfile(dst_dir):
    """pin the dependency versions of a helper crate to the workspace's Cargo.lock (ignored by git: a bare worktree of the
    repository has none until cargo has run there; fall back to /repo's, which lists the same dependencies)"""
    for src in (os.path.join(REPO, "Cargo.lock"), "/repo/Cargo.lock"):
        if os.path.exists(src):
            shutil.copy(src, os.path.join(dst_dir, "Cargo.lock")); return True
    return False
