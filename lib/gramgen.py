"""Enumerated / seeded family of pest grammars (text) for C01, C05, C06, C08, C02."""
import random, itertools

ATOMS = ['"a"', '"b"', '"ab"', '^"a"', "'a'..'c'", "ANY", "ASCII_DIGIT", "SOI", "EOI", "NEWLINE", "b", '""']
STACK_ATOMS = ['PUSH("a")', "PUSH(ANY)", "POP", "PEEK", "DROP", "PEEK_ALL", "POP_ALL", "PEEK[0..1]", "PEEK[-1..]", "PEEK[..]"]
POSTFIX = ["?", "*", "+", "{2}", "{1,2}", "{,2}", "{2,}", "{2,2}", "{1,1}"]
PREFIX = ["!", "&"]
MODS = ["", "_", "@", "$", "!"]


def nullable_txt(e):
    """very rough syntactic 'may match empty' used only to avoid generating obviously invalid repetitions"""
    e = e.strip()
    if e in ('""', "SOI", "EOI", "POP", "PEEK", "DROP", "PEEK_ALL", "POP_ALL") or e.startswith("PEEK["): return True
    if e.endswith(("?", "*", "{,2}")) or e.startswith(("!", "&")): return True
    return False


def exprs(rng, depth, stack=False):
    atoms = ATOMS + (STACK_ATOMS if stack else [])
    if depth <= 0 or rng.random() < 0.3:
        return rng.choice(atoms)
    r = rng.random()
    if r < 0.3:
        e = exprs(rng, depth - 1, stack)
        op = rng.choice(POSTFIX)
        if op in ("*", "+", "{2,}") and nullable_txt(e): op = "?"
        return f"({e}){op}"
    if r < 0.42:
        return rng.choice(PREFIX) + "(" + exprs(rng, depth - 1, stack) + ")"
    if r < 0.75:
        return exprs(rng, depth - 1, stack) + " ~ " + exprs(rng, depth - 1, stack)
    if r < 0.95:
        return "(" + exprs(rng, depth - 1, stack) + " | " + exprs(rng, depth - 1, stack) + ")"
    return "PUSH(" + exprs(rng, depth - 1, stack) + ")" if stack else "(" + exprs(rng, depth - 1, stack) + ")"


def grammar_text(a_expr, a_mod="", b_expr='"b" ~ "a"?', b_mod="", ws=None, cm=None):
    g = [f"a = {a_mod}{{ {a_expr} }}", f"b = {b_mod}{{ {b_expr} }}"]
    if ws: g.append(f"WHITESPACE = {ws}")
    if cm: g.append(f"COMMENT = {cm}")
    return "\n".join(g)


def systematic():
    """every operator once around simple atoms, every modifier, with/without WHITESPACE/COMMENT"""
    out = []
    base = ['"a"', "b", "'a'..'c'", "ANY"]
    for x in base:
        for op in POSTFIX:
            out.append(grammar_text(f"{x}{op}"))
            out.append(grammar_text(f"{x}{op} ~ \"b\"", ws='_{ " " }'))
        for p in PREFIX:
            out.append(grammar_text(f"{p}{x} ~ ANY"))
    for m in MODS:
        for m2 in MODS:
            out.append(grammar_text('"a" ~ b ~ "a"', m, '"b" ~ "b"', m2, ws='_{ " " }'))
    for ws, cm in [('_{ " " }', None), (None, '_{ "#" }'), ('_{ " " }', '_{ "#" ~ "b"? }'), ('{ " " }', '{ "#" }'), ('@{ " " }', '${ "#" }')]:
        out.append(grammar_text('"a" ~ "b"* ~ b?', "", '"b"+', "", ws, cm))
        out.append(grammar_text('("a" ~ "b")* ~ "a"', "@", '"b"', "", ws, cm))
        out.append(grammar_text('("a" | b){2} ~ EOI', "$", '"b" ~ "a"', "!", ws, cm))
    stackg = ['PUSH("a" | "b") ~ POP', 'PUSH(ANY) ~ PUSH(ANY) ~ POP_ALL', 'PUSH(ANY) ~ ("x" | PEEK) ~ DROP', 'PUSH("a")* ~ PEEK_ALL',
              '(PUSH("a") ~ "x")? ~ (DROP | "a")', 'PUSH(ANY) ~ PUSH(ANY) ~ PEEK[0..1] ~ PEEK[-1..]', '(PUSH(ANY) ~ "b" | ANY) ~ (PEEK | ANY)',
              'PUSH("a") ~ (!POP ~ ANY)* ~ POP', '(PUSH(ANY) ~ POP)*', 'PUSH(ANY) ~ PEEK[..] ~ PEEK[1..] ~ PEEK[..-1]']
    # stack transactions: pops inside a nested, succeeding sequence cross the enclosing checkpoint, then the outer alternative fails
    stackg += ['PUSH("a") ~ ((PUSH("b") ~ (POP ~ POP) ~ "!") | ("bba" ~ POP))', 'PUSH(ANY) ~ ((PUSH(ANY) ~ (DROP ~ DROP) ~ "!") | PEEK)',
               'PUSH("a") ~ ((PUSH("b") ~ (POP ~ PEEK) ~ "x") | (ANY ~ ANY ~ POP))', 'PUSH("a") ~ (PUSH("b") ~ (POP ~ POP)? ~ "!")? ~ POP_ALL',
               'PUSH("a") ~ PUSH("b") ~ ((PUSH("a") ~ (POP ~ POP ~ POP) ~ "!") | PEEK_ALL)', 'PUSH(ANY) ~ (!(PUSH(ANY) ~ (POP ~ POP)) ~ ANY ~ POP | ANY)',
               'PUSH("a") ~ ((b ~ "!") | ("bba" ~ POP))']
    # a failing sequence that consumed nothing and left the stack depth as it was, but replaced the stack's contents
    stackg += ['PUSH("a") ~ (DROP ~ PUSH("") ~ "!")? ~ PEEK ~ EOI', 'PUSH(ANY) ~ (DROP ~ PUSH(&ANY) ~ "!" | PEEK) ~ POP?',
               'PUSH("a") ~ PUSH("b") ~ (DROP ~ DROP ~ PUSH("") ~ PUSH("") ~ "!")* ~ PEEK_ALL']
    # a stack-slice match that fails part-way, as the direct operand of | ? *
    stackg += ['PUSH("a") ~ PUSH("b") ~ (PEEK_ALL | "b" ~ "c") ~ EOI', 'PUSH("ab") ~ PUSH("b") ~ (PEEK[0..2] | ANY*) ~ EOI', 'PUSH("a") ~ PUSH("b") ~ PEEK_ALL? ~ ANY*',
               'PUSH("a") ~ PUSH("b") ~ PEEK[..]* ~ ANY ~ EOI', 'PUSH(ANY) ~ PUSH(ANY) ~ (POP_ALL | ANY) ~ ANY?']
    for s in stackg:
        out.append(grammar_text(s)); out.append(grammar_text(s, "", '"b"', "", '_{ " " }'))
    out.append(grammar_text('PUSH("a") ~ ((b ~ "!") | ("bba" ~ POP))', "", 'PUSH("b") ~ (POP ~ POP)', ""))
    out.append(grammar_text('PUSH("a") ~ ((b ~ "!") | ("bba" ~ POP))', "", 'PUSH("b") ~ (POP ~ POP)', "_"))
    # near-misses of the skip pattern: the negated alternative is a rule of every type and body shape
    for bmod in MODS:
        for bbody in ['"a" ~ "b"', '"a" | "b"', '^"a"', '"a"+', "'a'..'b'", '"a" ~ "b" | "b"', '"ab"']:
            out.append(grammar_text('(!b ~ ANY)* ~ b?', "@", bbody, bmod, '_{ " " }'))
            out.append(grammar_text('(!(b | "c") ~ ANY)*', "@", bbody, bmod, '_{ " " }'))
            # the rule reference in every position of the negated choice (the skipper inlines head and tail references at different sites)
            out.append(grammar_text('(!("c" | b) ~ ANY)*', "@", bbody, bmod, '_{ " " }'))
            if bmod in ("", "_"):
                out.append(grammar_text('(!("c" | b | "d") ~ ANY)* ~ ANY?', "@", bbody, bmod))
                out.append(grammar_text('(!("c" | "d" | b) ~ ANY)*', "$", bbody, bmod))
                out.append(grammar_text('(!(b | "c" | b) ~ ANY)*', "@", bbody, bmod))
    # case-insensitive literals with characters that are not letters (only ASCII letters fold)
    for s_ in ['^"a-b"', '^"_" ~ ^"[x]"', '^"1@" | ^"Z"', '^"é" ~ ANY?']:
        out.append(grammar_text(s_)); out.append(grammar_text(s_, "@", '^"B"', ""))
    # the skip idiom with delimiters that share their first byte (the memchr arms) / of which one is a prefix of another
    for s_ in ['(!("ab" | "ac") ~ ANY)* ~ ANY?', '(!("ac" | "ab" | "aa") ~ ANY)* ~ "a"', '(!("a" | "ab") ~ ANY)*', '(!("b" | "ab" | "ac") ~ ANY)* ~ ANY*']:
        out.append(grammar_text(s_, "@")); out.append(grammar_text(s_, "$", '"b"', ""))
    lists = ['("a" ~ "b")* ~ "a"', '("a" ~ b)* ~ "a"', '(b ~ "a")* ~ b', '"a" ~ ("b" ~ "a")*', '(!"b" ~ ANY)*', '(!("a" | "b") ~ ANY)* ~ "a"',
             '(!("ab" | "b" | "") ~ ANY)*', '"a" ~ "b" | "a" ~ "c"', '"a" ~ "b" ~ "c" | "a" ~ "b" ~ "d" | "a"', '"a" ~ ("b" | "c" ~ "d")', '^"a" ~ ^"b"', '"a" ~ "" ~ "b"']
    for s in lists:
        out.append(grammar_text(s)); out.append(grammar_text(s, "", '"b"', "", '_{ " " }'))
    # every rewrite shape under each configuration of implicit rules (none / WHITESPACE only / COMMENT only / both)
    for s in ['"a" ~ "b" | "a"', 'b ~ "a" | b', '"a" | "a" ~ "b"', '("a" ~ "b")* ~ "a"', '"a" ~ "b" | "a" ~ "c"', '(!"b" ~ ANY)* ~ "b"', '"a"{2} ~ "b"?', '("a" ~ "b") ~ "c"? ~ "a"']:
        for ws, cm in [(None, '_{ "#" }'), ('_{ " " }', '_{ "#" }'), (None, '{ "#" ~ "#"? }')]:
            for m in ["", "!", "@"]:
                out.append(grammar_text(s, m, '"b"', "", ws, cm))
    nested = ['PUSH("a") ~ ("x" | POP | "b") ~ PEEK_ALL', 'PUSH("a") ~ ("-" ~ POP?)? ~ PEEK_ALL', 'PUSH("a") ~ (POP | "b")* ~ PEEK_ALL?', 'PUSH("a") ~ ("x" | (POP_ALL | "b")) ~ PEEK_ALL',
              'PUSH(ANY) ~ (("x" ~ "y" | POP)? ~ ANY)? ~ PEEK', 'PUSH("a") ~ (!("x" | POP) ~ ANY)* ~ PEEK_ALL',
              # a repetition whose body matches without consuming input but changes the stack
              'PUSH(ANY) ~ PUSH(ANY) ~ DROP*', 'PUSH(ANY) ~ PUSH(ANY) ~ DROP* ~ PEEK_ALL ~ ANY', 'PUSH("") ~ PUSH("") ~ PUSH("a") ~ POP* ~ ANY',
              # slices over two entries that read differently in the two directions
              'PUSH("a") ~ PUSH("b") ~ PEEK[..]', 'PUSH(ANY) ~ PUSH(ANY) ~ PEEK[0..] ~ EOI', 'PUSH("a") ~ PUSH("b") ~ (PEEK[..] | PEEK_ALL)', 'PUSH(ANY) ~ PUSH(ANY) ~ PEEK[-2..] ~ PEEK[..2]']
    for s in nested:
        out.append(grammar_text(s)); out.append(grammar_text(s, "", '"b"', "", '_{ " " }'))
    out.append(grammar_text('PUSH("a") ~ ("x" | b | "c") ~ PEEK_ALL', "", 'POP', "_"))
    out.append(grammar_text('PUSH(ANY) ~ PUSH(ANY) ~ b*', "", 'DROP', ""))
    # WHITESPACE / COMMENT named explicitly in a rule body (and entered as an ordinary rule call), with a structured body: a sequence or
    # repetition inside it (implicit skipping must stay off in there) or a call to a non-silent rule (whose pair shows or not)
    for m in MODS:
        out.append(grammar_text('"a" ~ COMMENT ~ "b"', m, '"b"', "", '_{ " " }', '{ "#" ~ "c"* ~ "#" }'))
        out.append(grammar_text('"a" ~ WHITESPACE+ ~ b', m, '"b"', "", '{ " " ~ b? ~ "," }', None))
        out.append(grammar_text('(COMMENT | b)*', m, '"b"', "", '_{ " " }', '_{ "#" ~ (!"c" ~ ANY)* ~ b }'))
        out.append(grammar_text('"a" ~ (WHITESPACE ~ COMMENT)? ~ ANY', m, '"c"', "", '@{ "-" ~ "-" }', '${ "#" ~ b ~ b }'))
    # a rule of every type called from a rule of every type, where the enclosing sequence fails after the inner rule matched and the
    # failure is absorbed by a choice / repetition (tokens of the abandoned attempt must go; atomicity must be put back)
    for m in MODS:
        for m2 in MODS:
            out.append(grammar_text('(b ~ "!") | (ANY ~ "?")', m, '"b"', m2))
            out.append(grammar_text('(b ~ "/")* ~ ANY', m, "'a'..'c'", m2, '_{ " " }'))
    return out


def extras_systematic():
    out = []
    for body in ['#t = b ~ "a"', 'b ~ #t = ("x")? ~ "a"', 'b ~ #t = b* ~ "a"', '#t = (b | "a")', 'b ~ #t = "x"* ', '#t = b+ ~ #u = b?',
                 'PUSH_LITERAL("a") ~ POP', 'PUSH_LITERAL("ab") ~ (PEEK ~ "x" | POP)', '(PUSH_LITERAL("a") ~ "x")? ~ (DROP | "a")', '!(#t = b) ~ ANY', '&(#t = b) ~ #u = b',
                 'b+ ~ "a"', '(b ~ "a"?)+', '"a"+ ~ "b"']:
        out.append(grammar_text(body)); out.append(grammar_text(body, "", '"b"', "", '_{ " " }'))
        out.append(grammar_text(body, "@", '"b"', "$"))
    return out


CROSS_SHAPES = [
    # sequences / choices with common heads and tails (rotate, concatenate, factor)
    '"a" ~ "b" | "a"', 'b ~ "a" | b', '"a" | "a" ~ "b"', '"a" ~ "b" | "a" ~ "c"', '("a" ~ "b") ~ "c"', '"a" ~ ("b" ~ "c")', '("a" | "b") | "c"', 'b ~ "x" | b ~ "y" | b',
    # repetitions of every kind (unroll), lists, skip patterns
    '"a"+ ~ "b"', 'b{2} ~ "a"', 'b{1,2} ~ "b"', 'b{,2} ~ "a"', 'b{2,} ~ "a"?', '("a" ~ "b")* ~ "a"', '(b ~ "a")* ~ b', '(!"b" ~ ANY)* ~ "b"', '(!(b | "c") ~ ANY)*', '(b ~ "/")* ~ ANY',
    # predicates, optional parts, nested branching
    '!b ~ ANY | b', '&b ~ ANY ~ "a"?', '!(b ~ "a") ~ ANY*', '(b ~ "!") | (ANY ~ "?")', '(b ~ "a"?)? ~ "b"', '("x" | b | "a")* ~ EOI', '(b? ~ "a")+', 'SOI ~ b* ~ EOI',
    # the stack: transactions across choice / optional / repetition / predicates, slices, zero-width repetitions
    'PUSH(b) ~ POP', 'PUSH(b) ~ ("x" | POP | "a") ~ PEEK_ALL', 'PUSH(b) ~ (POP ~ "x")? ~ DROP', 'PUSH(b) ~ PUSH(ANY) ~ (PEEK[..] | PEEK_ALL)', 'PUSH(b) ~ PUSH(b) ~ DROP* ~ ANY?',
    '(PUSH(b) ~ "x" | b) ~ (PEEK | ANY)', 'PUSH(b) ~ !(POP ~ "x") ~ PEEK', 'PUSH(ANY) ~ (PUSH(b) ~ (POP ~ POP) ~ "!" | PEEK ~ b)', 'PUSH(b)* ~ POP_ALL ~ ANY?', 'PUSH(b) ~ (POP_ALL ~ "x" | ANY)* ~ PEEK_ALL',
]
CROSS_B = ['"b"', '"b" ~ "a"?', '"b"+', "'a'..'c'", '"b" | "ab"', '"b" ~ "b"', '^"B"', 'ANY']
CROSS_IMPL = [(None, None), ('_{ " " }', None), ('{ " " }', None), (None, '_{ "#" }'), ('_{ " " }', '_{ "#" ~ "b"? }'), ('@{ " "+ }', None), (None, '${ "#" ~ "a"? }'), ('_{ " " | "\t" }', '{ "#" }')]


def crossed():
    """every shape x every value of one context dimension at a time (type of rule a, type of rule b, body of rule b, implicit
    rules), plus the full product of the two rule types for every shape under implicit whitespace.  Most seeded changes that
    the checks missed at first needed an ordinary construct in an unusual *context*; this family spells the contexts out."""
    out = []
    for s in CROSS_SHAPES:
        for m in MODS: out.append(grammar_text(s, m, '"b"', ""))
        for m2 in MODS: out.append(grammar_text(s, "", '"b"', m2))
        for bb in CROSS_B: out.append(grammar_text(s, "", bb, ""))
        for ws, cm in CROSS_IMPL: out.append(grammar_text(s, "", '"b"', "", ws, cm))
        for m in MODS:
            for m2 in MODS: out.append(grammar_text(s, m, '"b" ~ "a"?', m2, '_{ " " }', None))
        for m in ("@", "$", "!"):
            for ws, cm in CROSS_IMPL[3:]: out.append(grammar_text(s, m, '"b"', "", ws, cm))
    seen = set(); res = []
    for g in out:
        if g not in seen: seen.add(g); res.append(g)
    return res


def crossed_slice(seed, k):
    """a slice of the crossed family that rotates with the seed (k = 0: all of it)"""
    c = crossed()
    if not k or k >= len(c): return c
    random.Random(1234).shuffle(c)            # fixed order, then a window chosen by the seed
    n = len(c); start = (seed * k) % n
    return (c + c)[start:start + k]


def family(seed, count, depth=3, extras=False):
    """systematic part first (seed-rotated so that a small count still samples it differently per seed), then random"""
    rng = random.Random(seed)
    sysm = systematic()
    rng.shuffle(sysm)
    if extras:
        ex = extras_systematic(); rng.shuffle(ex)
        sysm = ex + sysm
    out = list(sysm)            # every aimed shape is part of every run; the seeded random part fills the rest (at least a fifth of the budget)
    count = max(count, len(out) + count // 5)
    seen = set(out)
    tries = 0
    while len(out) < count and tries < 50 * count:
        tries += 1
        stack = rng.random() < 0.3
        a = exprs(rng, rng.choice([2, depth]), stack)
        b = exprs(rng, 1, stack).replace("b", '"b"') if rng.random() < 0.5 else '"b" ~ "a"?'
        ws = rng.choice([None, None, '_{ " " }', '{ " " }'])
        cm = rng.choice([None, None, None, '_{ "#" }'])
        g = grammar_text(a, rng.choice(MODS), b, rng.choice(MODS), ws, cm)
        if g in seen: continue
        seen.add(g); out.append(g)
    return out[:count]
