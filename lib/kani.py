"""Engine K: run Kani proof harnesses from /verif/kani against /repo's working tree."""
import os, re, shutil, time, json, concurrent.futures as cf
from common import *

KANI_SRC = os.path.join(VERIF, "kani")
MEM_KB = int(os.environ.get("VERIF_KANI_MEM_KB", str(24 * 1024 * 1024)))


def ensure_generated(srcdir=None):
    """src/gen_c16.rs (one harness over the script names found in the working tree's pest/src/unicode/mod.rs) is part of
    the harness crate: it is regenerated for every run so that no check depends on C16 having run before it; when the names
    cannot be read the module is left empty (C16 itself then reports why)"""
    for d in ([srcdir] if srcdir else [os.path.join(crate_dir(v), "src") for v in ("default", "nomemchr")]):
        gpath = os.path.join(d, "gen_c16.rs")
        try:
            from props import c16
            text = c16.gen(*c16.read_names(), 40)
        except Exception as e:
            text = f"// not generated: {type(e).__name__}\n"
        _write_if_changed(gpath, text)


def _write_if_changed(path, text):
    if not os.path.exists(path) or open(path).read() != text:
        tmp = path + f".{os.getpid()}.{__import__('threading').get_ident()}.tmp"
        open(tmp, "w").write(text); os.replace(tmp, path)


_crate_lock = __import__("threading").Lock()
_crate_done = {}


def crate_dir(variant):
    """variant: 'default' (pest default features: std+memchr) or 'nomemchr' (std only)."""
    with _crate_lock:          # worker threads ask for the directory concurrently: prepare it once per process
        if variant not in _crate_done: _crate_done[variant] = _crate_dir(variant)
        return _crate_done[variant]


def _crate_dir(variant):
    d = os.path.join(WORK, "kani-crate-" + variant)
    os.makedirs(d, exist_ok=True)
    feats = '' if variant == "default" else ', default-features = false, features = ["std"]'
    toml = f"""[package]
name = "verif-kani"
version = "0.0.0"
edition = "2021"
publish = false

[workspace]

[lib]
path = "src/lib.rs"

[dependencies]
pest = {{ path = "{REPO}/pest"{feats} }}

[features]
nomemchr = []

[lints.rust]
unexpected_cfgs = {{ level = "allow" }}
"""
    # the harness sources are copied next to the manifest (the work directory may be a scratch one), plus the generated module
    os.makedirs(os.path.join(d, "src"), exist_ok=True)
    for fn in sorted(os.listdir(os.path.join(KANI_SRC, "src"))):
        if fn.endswith(".rs") and not fn.startswith("gen_"):
            _write_if_changed(os.path.join(d, "src", fn), open(os.path.join(KANI_SRC, "src", fn)).read())
    ensure_generated(os.path.join(d, "src"))
    p = os.path.join(d, "Cargo.toml")
    if not os.path.exists(p) or open(p).read() != toml:
        open(p, "w").write(toml)
    copy_lockfile(d)
    return d


def _parse(out):
    r = {"checks": 0, "failed": 0, "failed_checks": [], "covers_sat": None, "covers_total": None}
    m = re.search(r"\*\* (\d+) of (\d+) failed", out)
    if m:
        r["failed"], r["checks"] = int(m.group(1)), int(m.group(2))
    m = re.search(r"\*\* (\d+) of (\d+) cover properties satisfied", out)
    if m:
        r["covers_sat"], r["covers_total"] = int(m.group(1)), int(m.group(2))
    fc = re.findall(r"Failed Checks: (.*)\n\s*File: \"([^\"]+)\", line (\d+)", out)
    r["failed_checks"] = [f"{a} @ {b}:{c}" for a, b, c in fc]
    m = re.search(r"Verification Time: ([\d.]+)s", out)
    r["cbmc_s"] = float(m.group(1)) if m else None
    if "VERIFICATION:- SUCCESSFUL" in out:
        r["status"] = "pass"
    elif "VERIFICATION:- FAILED" in out:
        only_unwind = r["failed_checks"] and all("unwinding assertion" in x for x in r["failed_checks"])
        if "out of memory" in out.lower() or "Status: ERROR" in out or "std::bad_alloc" in out:
            r["status"] = "inconclusive"; r["why"] = "out of memory / CBMC error"
        elif any("not currently supported by Kani" in x for x in r["failed_checks"]):
            r["status"] = "inconclusive"; r["why"] = "construct unsupported by Kani: " + "; ".join(r["failed_checks"])[:300]
        elif only_unwind:
            r["status"] = "inconclusive"; r["why"] = "unwinding bound too small: " + "; ".join(r["failed_checks"])
        elif not r["failed_checks"] and r["failed"] == 0:
            r["status"] = "inconclusive"; r["why"] = "FAILED without a failed check"
        else:
            r["status"] = "fail"
    else:
        r["status"] = "inconclusive"; r["why"] = "no verdict in output"
    return r


def run_one(ctx, harness, variant, slot_dir, timeout, extra_args=(), stubbing=False, cfg_hooks=False):
    cd = crate_dir(variant)
    cmd = ["cargo", "kani", "--harness", harness, "--exact", "--target-dir", slot_dir]
    if stubbing: cmd += ["-Z", "stubbing"]
    cmd += list(extra_args)
    env = {}
    if cfg_hooks: env["RUSTFLAGS"] = f"--cfg {GUARD}"
    t0 = time.time()
    rc, out = sh(cmd, cwd=cd, timeout=timeout, env=env, memlimit_kb=MEM_KB)
    r = _parse(out) if rc != -9 else {"status": "inconclusive", "why": f"timeout {timeout}s", "checks": 0, "failed": 0,
                                       "failed_checks": [], "covers_sat": None, "covers_total": None, "cbmc_s": None}
    if rc not in (0, 1, -9) and r["status"] != "fail":
        r["status"] = "inconclusive"; r["why"] = f"cargo kani rc={rc}: " + out[-1500:]
    r["harness"], r["variant"], r["wall_s"], r["rc"] = harness, variant, round(time.time() - t0, 1), rc
    r["out_tail"] = out[-4000:]
    if r["status"] == "pass" and r["covers_total"] and r["covers_sat"] != r["covers_total"]:
        r["status"] = "inconclusive"; r["why"] = f"vacuity witness: only {r['covers_sat']}/{r['covers_total']} covers satisfiable"
    return r


def playback(ctx, harness, variant, stubbing=False, cfg_hooks=False, timeout=1800):
    """Re-run a failed harness with concrete playback, then replay the generated unit test natively
    (dev and release). Returns (reproduced: bool|None, replay_path, detail)."""
    cd = crate_dir(variant)
    slot = os.path.join(WORK, "kani-pb")
    cmd = ["cargo", "kani", "--harness", harness, "--exact", "--target-dir", slot, "-Z", "concrete-playback",
           "--concrete-playback=print"]
    if stubbing: cmd += ["-Z", "stubbing"]
    env = {"RUSTFLAGS": f"--cfg {GUARD}"} if cfg_hooks else {}
    rc, out = sh(cmd, cwd=cd, timeout=timeout, env=env, memlimit_kb=MEM_KB)
    blocks = re.findall(r"```\s*\n(.*?)```", out, re.S)
    blocks = [b for b in blocks if "kani_concrete_playback_" in b and "Check for `cover`" not in b]
    if not blocks:
        return None, None, "no concrete playback test produced for a failed check"
    # several failed checks give several tests; rename so they can coexist, keep at most 4
    tests, tnames = [], []
    for k, b in enumerate(blocks[:4]):
        tm = re.search(r"fn (kani_concrete_playback_\w+)", b)
        nn = f"{tm.group(1)}_{k}"
        tests.append(b.replace(tm.group(1), nn)); tnames.append(nn)
    test = "\n".join(tests)
    replay_path = save_replay(ctx, f"{harness.replace('::', '.')}.playback.rs", test)
    # scratch copy of the harness crate with the test appended to the harness' module
    scratch = os.path.join(WORK, "kani-pb-crate")
    shutil.rmtree(scratch, ignore_errors=True)
    shutil.copytree(os.path.join(cd, "src"), scratch + "/src")
    shutil.copy(os.path.join(cd, "Cargo.toml"), scratch + "/Cargo.toml")
    shutil.copy(os.path.join(cd, "Cargo.lock"), scratch + "/Cargo.lock")
    # module file of the harness (harness path is <module>::<fn>)
    modfile = os.path.join(scratch, "src", harness.split("::")[0] + ".rs")
    if not os.path.exists(modfile): modfile = None
    if modfile is None:
        return None, replay_path, "harness source not found"
    open(modfile, "a").write("\n" + test + "\n")
    results = []
    for prof in ([], ["--release"]):
        cmd = ["cargo", "kani", "playback", "-Z", "concrete-playback"] + (["-Z", "stubbing"] if stubbing else []) + prof + ["--", "kani_concrete_playback_"]
        e = dict(env); e["CARGO_TARGET_DIR"] = os.path.join(WORK, "kani-pb-target")
        rc2, out2 = sh(cmd, cwd=scratch, timeout=900, env=e)
        failed = ("test result: FAILED" in out2) or ("panicked at" in out2)
        ran = re.search(r"running [1-9]\d* tests?", out2) is not None
        results.append((" ".join(prof) or "dev", ran, failed, out2[-1500:]))
    shutil.rmtree(scratch, ignore_errors=True)
    if not any(r[1] for r in results):
        return None, replay_path, "playback test did not run: " + results[0][3]
    return any(r[2] for r in results), replay_path, "; ".join(f"{r[0]}: {'reproduced' if r[2] else 'not reproduced'}" for r in results)


def run_harnesses(ctx, jobs, parallel=None, timeout=1500):
    """jobs: list of dicts {harness, variant?, stubbing?, hooks?, timeout?}. Returns list of results."""
    parallel = parallel or min(int(os.environ.get("VERIF_KANI_PAR", "8")), max(1, len(jobs)))
    # slot directories: one target dir per worker so cargo never blocks on the build lock
    slots = [os.path.join(WORK, f"kani-slot-{i}") for i in range(parallel)]
    # warm slot 0 then clone it, so the dependency build is paid once
    import queue
    q = queue.Queue()
    for s in slots: q.put(s)

    def work(j):
        slot = q.get()
        try:
            slot_v = slot + "-" + j.get("variant", "default")
            return run_one(ctx, j["harness"], j.get("variant", "default"), slot_v, j.get("timeout", timeout),
                           stubbing=j.get("stubbing", False), cfg_hooks=j.get("hooks", False))
        finally:
            q.put(slot)

    results = []
    with cf.ThreadPoolExecutor(parallel) as ex:
        futs = {ex.submit(work, j): j for j in jobs}
        for f in cf.as_completed(futs):
            r = f.result()
            ctx.log(f"kani {r['harness']} [{r['variant']}]: {r['status']} checks={r['checks']} "
                    f"cbmc={r['cbmc_s']}s wall={r['wall_s']}s {r.get('why','')[:300]}")
            results.append(r)
    return results


def settle(ctx, results, jobs_by_h, what_fn=None):
    """turn harness results into violations (after native playback) or Inconclusive."""
    inconcl = []
    for r in results:
        if r["status"] == "pass": continue
        if r["status"] == "inconclusive":
            inconcl.append(f"{r['harness']}[{r['variant']}]: {r.get('why')}")
            continue
        j = jobs_by_h[(r["harness"], r["variant"])]
        rep, path, detail = playback(ctx, r["harness"], r["variant"], stubbing=j.get("stubbing", False), cfg_hooks=j.get("hooks", False))
        what = f"kani harness {r['harness']} [{r['variant']}] failed: {r['failed_checks']}; playback: {detail}"
        if rep:
            ctx.violations.append((what, path, r["harness"]))
        else:
            inconcl.append("counterexample did not reproduce natively (encoder/harness fault?): " + what)
    return inconcl
