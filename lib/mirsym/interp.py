"""Path-forking symbolic interpreter for rustc MIR (engine M)."""
import re, sys, os, time, threading
import z3
from .values import *
from .mirparse import (parse_file, parse_stmt, parse_place, split_top, match_paren, strip_generics, INT_W, const_table)

sys.setrecursionlimit(200000)

STD_VARIANTS = {
    "Option": ["None", "Some"], "Result": ["Ok", "Err"], "ControlFlow": ["Continue", "Break"],
    "Ordering": ["Less", "Equal", "Greater"], "Bound": ["Included", "Excluded", "Unbounded"],
    "Cow": ["Borrowed", "Owned"], "AtomicOrdering": ["Relaxed", "Release", "Acquire", "AcqRel", "SeqCst"],
}
ORDERING_DISCR = {"Less": -1, "Equal": 0, "Greater": 1}


# =========================================================================== program
class Program:
    def __init__(self, repo_root):
        self.root = repo_root
        self.fns = []            # all Fn
        self.index = {}          # key -> [Fn]
        self.closures = {}       # span string -> Fn
        self.consts = {}         # NAME -> literal text
        self.variants = {k: list(v) for k, v in STD_VARIANTS.items()}
        self.explicit_discr = {}
        self._src = {}
        self.compiled = {}       # id(fn) -> {bb: [stmts]}
        self.crates = []
        self.static_allocs = {}
        self.crate_roots = {}

    # ---- loading
    def load(self, mirfile, crate, root=None):
        if root: self.crate_roots[crate] = root
        fns = parse_file(mirfile, crate)
        self.consts.update(const_table(mirfile))
        for m in re.finditer(r"^alloc(\d+) \(static: ([\w:]+)", open(mirfile, errors="replace").read(), re.M):
            self.static_allocs[(crate, m.group(1))] = m.group(2).split("::")[-1]
        self.crates.append((crate, mirfile, len(fns)))
        for f in fns:
            f.file = mirfile
            self.fns.append(f)
            f.keys = list(self._keys_for(f))
            for k in f.keys:
                self.index.setdefault(k, []).append(f)
            if "{closure#" in f.name and f.args:
                m = re.search(r"\{closure@([^}]+)\}", f.args[0][1])
                if m: self.closures.setdefault(m.group(1), f)
        return fns

    def load_enums(self, src_dirs_or_files, features=()):
        """variant order of every enum defined in the given source files (cfg(feature=..) on variants honoured)"""
        files = []
        for p in src_dirs_or_files:
            if os.path.isdir(p):
                for dp, _, fn in os.walk(p):
                    files += [os.path.join(dp, f) for f in fn if f.endswith(".rs")]
            else:
                files.append(p)
        for fp in files:
            self.load_enums_text(open(fp, errors="replace").read(), features)

    def load_enums_text(self, src, features=()):
        src = re.sub(r"//[^\n]*", "", src)
        for m in re.finditer(r"\benum\s+(\w+)\s*(<[^{]*?>)?\s*(where[^{]*)?\{", src):
            name = m.group(1)
            try:
                e = match_paren(src, m.end() - 1)
            except Exception:
                continue
            body = src[m.end():e]
            vs = []
            for part in split_top(body):
                skip = False
                for fm in re.finditer(r"#\s*\[\s*cfg\s*\(\s*feature\s*=\s*\"([^\"]+)\"\s*\)\s*\]", part):
                    if fm.group(1) not in features: skip = True
                for fm in re.finditer(r"#\s*\[\s*cfg\s*\(\s*not\s*\(\s*feature\s*=\s*\"([^\"]+)\"\s*\)\s*\)\s*\]", part):
                    if fm.group(1) in features: skip = True
                if skip: continue
                part = re.sub(r"#\s*\[.*?\]\s*", "", part, flags=re.S).strip()
                vm = re.match(r"(\w+)", part)
                if vm: vs.append(vm.group(1))
            if vs and name not in STD_VARIANTS:
                self.variants[name] = vs

    def src_lines(self, file, crate=None):
        key = (crate if crate in self.crate_roots else None, file)
        if key not in self._src:
            root = self.crate_roots.get(crate, self.root)
            p = file if os.path.isabs(file) else os.path.join(root, file)
            self._src[key] = open(p, errors="replace").read().split("\n")
        return self._src[key]

    def _impl_header(self, file, line, col, crate=None):
        """-> (type_last_segment, trait_last_segment or None)"""
        L = self.src_lines(file, crate)
        text = L[line - 1][col - 1:]
        if text.startswith("impl") or text.startswith("unsafe impl"):
            j = line
            while "{" not in text and j < len(L):
                text += " " + L[j].strip(); j += 1
            text = text[:text.index("{")]
            text = re.sub(r"\s*(::|<|,)\s*", r"\1", text)        # token-stream spacing of generated code
            text = re.sub(r"\s+>", ">", text)
            text = re.sub(r"^(unsafe )?impl\s*", "", text)
            if text.startswith("<"):
                text = text[match_paren(text, 0) + 1:]
            text = re.split(r"\bwhere\b", text)[0].strip()
            h = strip_generics(text)
            if " for " in h:
                tr, ty = h.split(" for ", 1)
                return ty.strip().lstrip(":"), tr.strip().split("::")[-1]
            return h.strip().lstrip(":"), None
        # derive: the span covers the trait name inside #[derive(..)]
        tm = re.match(r"(\w+)", text)
        trait = tm.group(1)
        m = re.search(r"\b(struct|enum|union)\s+(\w+)", text)
        if m: return m.group(2), trait
        for j in range(line, min(line + 40, len(L))):
            m = re.search(r"\b(struct|enum|union)\s+(\w+)", L[j])
            if m: return m.group(2), trait
        raise Unsupported(f"derive impl target not found at {file}:{line}")

    def _keys_for(self, f):
        name = f.name
        m = re.search(r"<impl at ([^:>]+):(\d+):(\d+): \d+:\d+>::(.+)$", name)
        if m:
            try:
                ty, tr = self._impl_header(m.group(1), int(m.group(2)), int(m.group(3)), f.crate)
            except Exception as e:
                ty, tr = None, None
            rest = strip_generics(m.group(4))
            if ty:
                tyk = norm_type(ty)
                if tr: yield f"<{tyk} as {tr}>::{rest}"
                else: yield f"{tyk}::{rest}"
            return
        s = strip_generics(name)
        yield s
        segs = s.split("::")
        for i in range(1, len(segs)):
            yield "::".join(segs[i:])

    # ---- lookup
    def lookup(self, key, const=False):
        """key: stripped callee path -> Fn or None (functions preferred unless const=True)"""
        r = self._lookup(key)
        return r

    def _pick(self, c, const, crate=None, key=None):
        cands = [f for f in c if f.is_const == const] or list(c)
        if crate is not None:
            same = [f for f in cands if f.crate == crate]
            if same: cands = same
        if key is not None:
            exact = [f for f in cands if strip_generics(f.name) == key]
            if exact: cands = exact
        return cands[0]

    def lookup_kind(self, key, const, crate=None):
        c = self.index.get(key)
        if c and len(c) > 1: return self._pick(c, const, crate, key)
        return self._lookup(key)

    def _lookup(self, key):
        c = self.index.get(key)
        if c: return c[0]
        m = re.match(r"<(.+) as ([^>]+?)>::(.+)$", key)
        if m:
            k2 = f"<{norm_type(m.group(1))} as {m.group(2).split('::')[-1]}>::{m.group(3)}"
            c = self.index.get(k2)
            if c: return c[0]
            # items nested in a trait method may be printed by their short path in their own definition
            rest = m.group(3).split("::")
            for i in range(1, len(rest)):
                c = self.index.get("::".join(rest[i:]))
                if c and len(c) == 1 and len(rest) - i >= 2: return c[0]
            return None
        segs = key.split("::")
        for i in range(1, len(segs) - 0):
            c = self.index.get("::".join(segs[i:]))
            if c: return c[0]
        return None

    def lookup_struct(self, name):
        return False

    def code(self, fn):
        c = self.compiled.get(id(fn))
        if c is None:
            c = {}
            for bb, stmts in fn.blocks.items():
                out = []
                for s in stmts:
                    try:
                        p = parse_stmt(s)
                    except Exception as e:
                        p = ("unsupported", f"{s}   [{e}]")
                    if p is not None:
                        out.append(self._annotate(fn, p))
                c[bb] = out
            self.compiled[id(fn)] = c
        return c

    # ---- static typing of operands (int width / signedness)
    def type_of_place(self, fn, place):
        loc, proj = place
        t = fn.locals.get(loc)
        for p in proj:
            if t is None: return None
            k = p[0]
            if k == "deref":
                t = re.sub(r"^&('\w+ )?(mut )?|^\*(const|mut) ", "", t.strip())
                m = re.match(r"(?:alloc::boxed::)?Box<(.*)>$", t)
                if m: t = m.group(1)
            elif k == "field": t = p[2]
            elif k == "down": pass
            elif k in ("index", "cindex"):
                t = t.strip()
                if t.startswith("["):
                    inner = t[1:match_paren(t, 0)]
                    t = split_top(inner, ";")[0]
                else:
                    return None
        return t.strip() if t else None

    def type_of_operand(self, fn, op):
        if op[0] == "const":
            c = op[1]
            m = re.match(r"-?\d+_(\w+)$", c)
            if m: return m.group(1)
            if c in ("true", "false"): return "bool"
            if c.startswith("'"): return "char"
            return None
        return self.type_of_place(fn, op[1])

    def _annotate(self, fn, st):
        if st[0] == "assign":
            rv = st[2]
            k = rv[0]
            if k == "binop":
                t = self.type_of_operand(fn, rv[2]) or self.type_of_operand(fn, rv[3])
                if rv[1] in ("Shl", "Shr", "ShlUnchecked", "ShrUnchecked"):
                    t = self.type_of_operand(fn, rv[2])
                tb = self.type_of_operand(fn, rv[3])
                return ("assign", st[1], ("binop", rv[1], rv[2], rv[3], t, tb))
            if k == "unop":
                return ("assign", st[1], ("unop", rv[1], rv[2], self.type_of_operand(fn, rv[2])))
            if k == "cast":
                return ("assign", st[1], ("cast", rv[1], rv[2], rv[3], self.type_of_operand(fn, rv[1])))
            if k == "agg" and rv[1] == "adt" and "::" not in rv[2]:
                # a variant imported by its bare name: the destination type names the enum
                t = self.type_of_place(fn, st[1])
                if t:
                    ts = strip_generics(t)
                    for en in (ts, ts.split("::")[-1], "::".join(ts.split("::")[-2:])):
                        vs = self.variants.get(en)
                        if vs is not None and rv[2] in vs:
                            return ("assign", st[1], ("agg", "adt", f"{en}::{rv[2]}", rv[3]))
        if st[0] == "switch":
            return ("switch", st[1], st[2], st[3], self.type_of_operand(fn, st[1]))
        return st


def norm_type(t):
    """type as used in lookup keys: last path segment for plain paths, kept as is for &T, [T], (..), dyn"""
    t = t.strip()
    if re.match(r"^[\w:]+$", t): return t.split("::")[-1]
    m = re.match(r"^(&)?(?:mut )?\[.*\]$", t)
    if m: return ("&" if m.group(1) else "") + "[]"
    return t


# =========================================================================== exploration / solver
class SolverUnknown(Exception):
    pass


class Explorer:
    """DFS over decision prefixes with one incremental solver."""

    def __init__(self, timeout_ms=20000, max_steps=2_000_000):
        self.solver = z3.Solver()
        self.solver.set("timeout", timeout_ms)
        self.level = 0             # pushes currently on the solver
        self.sigs = []             # signature of the constraint at each level
        self.nqueries = 0
        self.solver_time = 0.0
        self.npaths = 0
        self.max_steps = max_steps
        self.base = []             # base constraints (asserted at level 0)

    def add_base(self, *cs):
        assert self.level == 0
        for c in cs:
            self.solver.add(c); self.base.append(c)

    def check(self, *extra):
        t = time.time()
        r = self.solver.check(*extra)
        self.solver_time += time.time() - t
        self.nqueries += 1
        if r == z3.unknown:
            raise SolverUnknown(self.solver.reason_unknown())
        return r == z3.sat

    def pop_to(self, lvl):
        if self.level > lvl:
            self.solver.pop(self.level - lvl)
            self.level = lvl
            del self.sigs[lvl:]

    def push(self, c, sig=None):
        self.solver.push(); self.level += 1
        self.solver.add(c)
        self.sigs.append(sig)

    def explore(self, body, limit_paths=None):
        """body(world) runs one path and returns anything; yields (world, result_or_exception)."""
        work = [[]]
        while work:
            prefix = work.pop()
            self.pop_to(max(0, len(prefix) - 1))
            w = World(self, prefix)
            try:
                res = body(w)
            except (Panic, StepLimit) as e:
                res = e
            except Infeasible:
                continue
            self.npaths += 1
            for alt in w.pending: work.append(alt)
            yield w, res
            if limit_paths and self.npaths >= limit_paths:
                return


class World:
    """one path"""

    def __init__(self, ex, prefix):
        self.ex = ex
        self.prefix = prefix
        self.taken = []
        self.pending = []
        self.pc = []
        self.steps = 0
        self.model = None
        self.fresh = 0
        self.globals = {}
        self.statics = {}
        self.events = []
        self.user = {}

    def fresh_bv(self, name, w):
        self.fresh += 1
        return z3.BitVec(f"{name}!{self.fresh}", w)

    def get_model(self):
        if self.model is None:
            if not self.ex.check():
                raise Infeasible()
            self.model = self.ex.solver.model()
        return self.model

    def branch(self, cond, tag=None):
        """cond: python bool or z3 Bool -> python bool (forks)."""
        if cond is True or cond is False: return cond
        if not is_sym(cond): return bool(cond)
        raw_sig = cond.hash()      # structural hash of the condition as built (simplify may reorder arguments)
        cond = z3.simplify(cond)
        if z3.is_true(cond): return True
        if z3.is_false(cond): return False
        ex = self.ex
        k = len(self.taken)
        if k < len(self.prefix):
            d = self.prefix[k][0]
            c = cond if d else z3.Not(cond)
            if k < len(self.prefix) - 1:
                # already on the solver from the previous path (sanity: same constraint)
                if k >= len(ex.sigs) or ex.sigs[k] != (raw_sig, d):
                    raise Unsupported("non-deterministic re-execution (constraint mismatch at decision %d)" % k)
            else:
                ex.push(c, (raw_sig, d))
                self.model = None
        else:
            m = self.get_model()
            cur = z3.is_true(m.eval(cond, model_completion=True))
            other = z3.Not(cond) if cur else cond
            if ex.check(other):
                self.pending.append(self.taken + [(0 if cur else 1, tag)])
            d = 1 if cur else 0
            ex.push(cond if cur else z3.Not(cond), (raw_sig, d))
        self.taken.append((d, tag))
        self.pc.append(cond if d else z3.Not(cond))
        return bool(d)

    def choose(self, v, lo=0, hi=1 << 20):
        """concretise a small symbolic integer by forking on its value (model value first)."""
        if not is_sym(v): return v
        v = z3.simplify(v)
        if z3.is_bv_value(v): return v.as_long()
        tried = set()
        while True:
            k = len(self.taken)
            if k < len(self.prefix):
                c = self.prefix[k][1]
                if c is None: raise Unsupported("non-deterministic re-execution (choose vs branch)")
            else:
                m = self.get_model()
                c = m.eval(v, model_completion=True).as_long()
            if c in tried: raise Unsupported("choose loop")
            tried.add(c)
            if self.branch(v == c, tag=c): return c

    def must(self, cond):
        """is cond true on every input of this path?  (unsat of pc & !cond)"""
        if cond is True: return True
        if cond is False: return False
        cond = z3.simplify(cond)
        if z3.is_true(cond): return True
        return not self.ex.check(z3.Not(cond))

    def may(self, cond):
        if cond is True: return True
        if cond is False: return False
        return self.ex.check(cond)

    def model_for(self, cond=None):
        if cond is None: return self.get_model()
        if self.ex.check(cond): return self.ex.solver.model()
        return None


# =========================================================================== interpreter
class Interp:
    def __init__(self, prog, world, summaries):
        self.P, self.W, self.S = prog, world, summaries
        self.depth = 0
        self.S_types_custom = ()
        self.cur_crate = None
        self.trace = None
        self.fn_used = set()

    # ---------------- places
    def resolve(self, frame, place):
        loc, proj = place
        cell, path = frame[loc], ()
        for p in proj:
            k = p[0]
            if k == "field": path = path + (p[1],)
            elif k == "deref":
                v = self.read(cell, path)
                v = unwrap_ptr(v)
                if type(v) is SliceRef:
                    cell, path = SliceCell(v), ()
                elif type(v) is Ptr:
                    cell, path = v.cell, v.path
                else:
                    raise Unsupported(f"deref of {v!r}")
            elif k == "down": pass
            elif k == "index":
                idx = frame[p[1]].v
                if is_sym(idx): idx = self.W.choose(idx)
                v = self.read(cell, path)
                n = v.len if type(v) is SliceRef else len(v.f)
                if idx >= n: raise Panic(f"index out of bounds: the len is {n} but the index is {idx}", "index")
                path = path + (idx,)
            elif k == "cindex":
                if p[2]:
                    v = self.read(cell, path)
                    n = v.len if type(v) is SliceRef else len(v.f)
                    path = path + (n - p[1],)
                else:
                    path = path + (p[1],)
            elif k == "subslice":
                v = self.read(cell, path)
                if type(v) is not SliceRef: raise Unsupported("subslice of non-slice")
                to = v.len - p[2] if p[3] else (p[2] if p[2] else v.len)
                cell, path = SliceCell(SliceRef(v.obj, v.start + p[1], to - p[1], v.is_str)), ()
        return cell, path

    def read(self, cell, path):
        v = cell.v
        for i in path:
            if type(v) is SliceRef:
                if i >= v.len: raise Panic("index out of bounds", "index")
                v = v.obj.f[v.start + i]
            else:
                try:
                    v = v.f[i]
                except (IndexError, AttributeError):
                    raise Unsupported(f"read field {i} of {v!r} (path {path})")
        return v

    def write(self, cell, path, val):
        if not path:
            cell.v = val; return
        v = cell.v
        for i in path[:-1]:
            if type(v) is SliceRef: v = v.obj.f[v.start + i]
            else: v = v.f[i]
        i = path[-1]
        if type(v) is SliceRef: v.obj.f[v.start + i] = val
        else:
            f = v.f
            if type(f) is tuple:
                raise Unsupported("write into immutable aggregate")
            while len(f) <= i: f.append(None)
            f[i] = val

    def deref(self, p):
        p = unwrap_ptr(p)
        if type(p) is Ptr: return self.read(p.cell, p.path)
        return p

    # ---------------- operands
    def operand(self, frame, op):
        k = op[0]
        if k == "copy":
            cell, path = self.resolve(frame, op[1])
            return clone_val(self.read(cell, path))
        if k == "move":
            cell, path = self.resolve(frame, op[1])
            return self.read(cell, path)
        if k == "fnitem":
            return FnItem(op[1], strip_generics(op[1]))
        return self.const(op[1])

    def const(self, c):
        m = re.match(r"(-?\d+)_(\w+)$", c)
        if m: return int(m.group(1)) & ((1 << INT_W[m.group(2)]) - 1)
        if c == "true": return True
        if c == "false": return False
        if c == "()": return UNIT
        cg = self.W.user.get("consts")
        if cg and c in cg: return cg[c]
        if c.endswith("::BY_NAME"):
            t = self._by_name_table(c)
            if t is not None: return t
        if c.startswith('"'):
            b = _str_lit(c)
            return SliceRef(VecObj(list(b), "static"), 0, len(b), True)
        if c.startswith('b"'):
            b = _str_lit(c[1:])
            return Ptr(Cell(Agg(list(b), "array")))
        if c.startswith("'"):
            return ord(_char_lit(c))
        if c.startswith("ZeroSized"):
            m = re.search(r"\{closure@([^}]+)\}", c)
            if m:
                return Closure([], m.group(1))
            m = re.match(r"ZeroSized: fn\([^{]*\{(.+)\}$", c)
            t = c[len("ZeroSized: "):]
            if t.startswith("fn(") or " {" in t:
                m = re.search(r"\{(.+)\}$", t)
                if m: return FnItem(m.group(1), strip_generics(m.group(1)))
            return Agg((), strip_generics(t).split("::")[-1])
        m = re.match(r"\{alloc(\d+)(?:<imm>)?: (.+)\}$", c)
        if m and (self.cur_crate, m.group(1)) in self.P.static_allocs and "Atomic" not in m.group(2):
            # a named static: one cell per static, initialised on first use by running its initialiser
            nm = self.P.static_allocs[(self.cur_crate, m.group(1))]
            cell = self.W.statics.get("static:" + nm)
            if cell is None:
                f = self.P.lookup_kind(nm, True, self.cur_crate)
                if f is None or not f.is_const: raise Unsupported("static " + nm)
                cell = Cell(None); self.W.statics["static:" + nm] = cell
                cell.v = self.run(f, [])
            return Ptr(cell)
        m = re.match(r"\{alloc\d+(?:<imm>)?: (.+)\}$", c)
        if m:
            ty = m.group(1)
            cell = self.W.statics.get(ty)
            if cell is None:
                cell = Cell(("static", ty)); self.W.statics[ty] = cell
            return Ptr(cell)
        sc = strip_generics(c)
        if re.match(r"(?:[\w]+::)+(\w+)$", sc):
            v = self.make_adt(sc, [])
            if type(v) is Enum: return v
        if "promoted[" in c:
            f = self.P.lookup(sc)
            if f is None: raise Unsupported("promoted const " + c)
            return self.run(f, [])
        if c in ("RangeFull", "core::ops::RangeFull"): return Agg((), "RangeFull")
        mm = re.match(r"^(?:core::num::<impl (\w+)>|(\w+))::(MAX|MIN|BITS)$", c)
        if mm and (mm.group(1) or mm.group(2)) in INT_W:
            t = mm.group(1) or mm.group(2); w = INT_W[t]; signed = t[0] == "i"
            if mm.group(3) == "BITS": return w
            if mm.group(3) == "MAX": return (1 << (w - 1)) - 1 if signed else (1 << w) - 1
            return (1 << (w - 1)) if signed else 0
        nm = sc.split("::")[-1]
        if nm in self.P.consts:
            return self.const(self.P.consts[nm])
        f = self.P.lookup_kind(sc, True)
        if f is not None and f.is_const:
            return self.run(f, [])
        if f is not None:
            return FnItem(c, sc)
        if re.match(r"^[\w:]+$", sc):
            # unit struct / fn item we know nothing about: carry as a fn item and fail only if it is called
            return FnItem(c, sc)
        raise Unsupported("const " + c)

    # ---------------- rvalues
    def rvalue(self, frame, rv):
        k = rv[0]
        if k == "use":
            return self.operand(frame, rv[1])
        if k == "ref":
            cell, path = self.resolve(frame, rv[1])
            if type(cell) is SliceCell and not path:
                return cell.v
            return Ptr(cell, path)
        if k == "binop":
            return self.binop(rv[1], self.operand(frame, rv[2]), self.operand(frame, rv[3]), rv[4], rv[5])
        if k == "discr":
            cell, path = self.resolve(frame, rv[1])
            v = self.read(cell, path)
            for _ in range(3):             # a place reached through `*box` may still hold the Box wrapper
                if type(v) is Agg and v.ty in ("Box", "Unique", "NonNull"):
                    u = unwrap_ptr(v)
                    if type(u) is Ptr: v = self.read(u.cell, u.path); continue
                break
            if type(v) is Enum:
                if v.ty == "Ordering" and v.var in ORDERING_DISCR: return ORDERING_DISCR[v.var] & 0xFF
                return v.idx
            raise Unsupported(f"discriminant of {v!r}")
        if k == "agg":
            kind = rv[1]
            vals = [self.operand(frame, o) for o in rv[3]]
            if kind == "tuple": return Agg(vals, "tuple") if vals else UNIT
            if kind == "array": return Agg(vals, "array")
            if kind == "closure": return Closure(vals, rv[2])
            return self.make_adt(rv[2], vals)
        if k == "cast":
            return self.cast(self.operand(frame, rv[1]), rv[2], rv[3], rv[4])
        if k == "unop":
            v = self.operand(frame, rv[2])
            op = rv[1]
            if op == "Not":
                if isinstance(v, bool): return not v
                if is_sym(v): return z3.Not(v) if z3.is_bool(v) else ~v
                w = INT_W.get(rv[3], 64)
                return ~v & ((1 << w) - 1)
            if op == "Neg":
                w = INT_W.get(rv[3], 64)
                return -v if is_sym(v) else (-v) & ((1 << w) - 1)
            if op == "PtrMetadata":
                v = unwrap_ptr(v)
                if type(v) is SliceRef: return v.len
                return UNIT
        if k == "len":
            cell, path = self.resolve(frame, rv[1])
            v = self.read(cell, path)
            return v.len if type(v) is SliceRef else len(v.f)
        if k == "repeat":
            v = self.operand(frame, rv[1])
            n = rv[2]
            m = re.match(r"(\d+)", n) or re.match(r"const (\d+)", n)
            cnt = int(m.group(1)) if m else int(self.const(n.replace("const ", "").strip()))
            return Agg([clone_val(v) for _ in range(cnt)], "array")
        if k == "shallow_box":
            return mkbox(unwrap_ptr(self.operand(frame, rv[1])))
        if k == "nullop":
            if rv[1] in ("UbChecks", "ContractChecks"): return False
        raise Unsupported(f"rvalue {rv!r}")

    def make_adt(self, path, vals):
        segs = path.split("::")
        if len(segs) >= 2:
            for j in range(0, len(segs) - 1):
                en = "::".join(segs[j:-1])
                vs = self.P.variants.get(en)
                if vs is not None and segs[-1] in vs:
                    return Enum(en, segs[-1], vs.index(segs[-1]), vals)
        if len(segs) == 1:
            # a variant imported by name (e.g. `BottomToTop`): unique owner enum
            owners = [en for en, vs in self.P.variants.items() if segs[0] in vs]
            if len(owners) == 1 and not self.P.lookup_struct(segs[0]):
                en = owners[0]
                return Enum(en, segs[0], self.P.variants[en].index(segs[0]), vals)
        return Agg(vals, segs[-1])

    def cast(self, v, ty, kind, sty):
        ty = ty.strip()
        if kind == "IntToInt":
            sw = INT_W.get(sty)
            dw = INT_W.get(ty)
            if isinstance(v, bool): v = int(v); sw = 1
            if is_sym(v) and z3.is_bool(v):
                return z3.If(v, z3.BitVecVal(1, dw), z3.BitVecVal(0, dw))
            if type(v) is Enum:   # fieldless enum as integer
                v = v.idx; sw = 64
            if sw is None or dw is None: raise Unsupported(f"IntToInt {sty}->{ty}")
            signed = sty[0] == "i"
            if not is_sym(v):
                if signed and v >> (sw - 1): v -= 1 << sw
                return v & ((1 << dw) - 1)
            if dw == sw: return v
            if dw < sw: return z3.Extract(dw - 1, 0, v)
            return z3.SignExt(dw - sw, v) if signed else z3.ZeroExt(dw - sw, v)
        if kind == "Transmute":
            if "*const" in ty or "*mut" in ty or ty.startswith("&"):
                return unwrap_ptr(v)
            return v
        if kind.startswith("PointerCoercion"):
            if "Unsize" in kind:
                tv = unwrap_ptr(v)
                if type(tv) is Ptr and re.match(r"^(&|\*const |\*mut |&mut )?'?\w*\s*(mut )?\[", ty.replace("&'_ ", "&")):
                    tgt = self.read(tv.cell, tv.path)
                    if type(tgt) is Agg and tgt.ty == "array":
                        if type(tgt.f) is tuple: tgt.f = list(tgt.f)
                        return SliceRef(tgt, 0, len(tgt.f))
                if type(v) is Agg and v.ty == "Box" and "[" in ty:
                    tgt = self.deref(v)
                    if type(tgt) is Agg and tgt.ty == "array":
                        return Agg([SliceRef(VecObj(list(tgt.f)), 0, len(tgt.f))], "BoxSlice")
                return v      # dyn coercions keep the value; calls dispatch on it
            return v
        if kind in ("PtrToPtr", "FnPtrToPtr", "MutToConstPointer"):
            return v
        if kind in ("PointerExposeProvenance", "PointerExposeAddress"):
            raise Unsupported("pointer to integer cast")
        raise Unsupported(f"cast {kind} to {ty}")

    def binop(self, op, x, y, ty, tyb=None):
        if type(x) is Enum and type(y) is Enum:
            return {"Eq": x.idx == y.idx, "Ne": x.idx != y.idx}[op]
        if ty == "bool" or isinstance(x, bool) or isinstance(y, bool) or (is_sym(x) and z3.is_bool(x)) or (is_sym(y) and z3.is_bool(y)):
            sym = is_sym(x) or is_sym(y)
            if op == "Eq": return (x == y)
            if op == "Ne": return (x != y)
            if op == "BitAnd": return _and(x, y)
            if op == "BitOr": return _or(x, y)
            if op == "BitXor": return z3.Xor(_b(x), _b(y)) if sym else (x != y)
            if op in ("Lt", "Le", "Gt", "Ge"):
                if sym: raise Unsupported("ordered compare of symbolic bools")
                return {"Lt": x < y, "Le": x <= y, "Gt": x > y, "Ge": x >= y}[op]
            raise Unsupported("bool binop " + op)
        if op in ("Eq", "Ne") and (type(x) in (Ptr, SliceRef) or type(y) in (Ptr, SliceRef)):
            e = ptr_eq(x, y)
            return e if op == "Eq" else not e
        if op == "Offset":
            raise Unsupported("pointer offset")
        w = INT_W.get(ty)
        if w is None:
            if is_sym(x): w = x.size()
            elif is_sym(y): w = y.size()
            else: w = 64
        signed = bool(ty) and ty[0] == "i"
        sym = is_sym(x) or is_sym(y)
        if op in ("Shl", "Shr", "ShlUnchecked", "ShrUnchecked"):
            wb = INT_W.get(tyb, w)
            if sym:
                if not is_sym(x): x = z3.BitVecVal(x, w)
                if is_sym(y):
                    if wb < w: y = z3.ZeroExt(w - wb, y)
                    elif wb > w: y = z3.Extract(w - 1, 0, y)
                else: y = z3.BitVecVal(y % w, w)
                if op.startswith("Shl"): return x << y
                return (x >> y) if signed else z3.LShR(x, y)
            y %= w
            if op.startswith("Shl"): return (x << y) & ((1 << w) - 1)
            if signed and x >> (w - 1): return ((x - (1 << w)) >> y) & ((1 << w) - 1)
            return x >> y
        if sym:
            if not is_sym(x): x = z3.BitVecVal(x, w)
            if not is_sym(y): y = z3.BitVecVal(y, w)
        mask = (1 << w) - 1
        if op in ("Eq", "Ne", "Lt", "Le", "Gt", "Ge"):
            if sym:
                if op == "Eq": return x == y
                if op == "Ne": return x != y
                if signed: return {"Lt": x < y, "Le": x <= y, "Gt": x > y, "Ge": x >= y}[op]
                return {"Lt": z3.ULT(x, y), "Le": z3.ULE(x, y), "Gt": z3.UGT(x, y), "Ge": z3.UGE(x, y)}[op]
            if signed: x, y = _sgn(x, w), _sgn(y, w)
            return {"Eq": x == y, "Ne": x != y, "Lt": x < y, "Le": x <= y, "Gt": x > y, "Ge": x >= y}[op]
        if op == "Cmp":
            if sym:
                lt = (x < y) if signed else z3.ULT(x, y)
                if self.W.branch(lt): return Enum("Ordering", "Less", 0)
                if self.W.branch(x == y): return Enum("Ordering", "Equal", 1)
                return Enum("Ordering", "Greater", 2)
            if signed: x, y = _sgn(x, w), _sgn(y, w)
            return Enum("Ordering", *(("Less", 0) if x < y else ("Equal", 1) if x == y else ("Greater", 2)))
        if op in ("Add", "Sub", "Mul", "AddUnchecked", "SubUnchecked", "MulUnchecked"):
            o = op[:3]
            r = x + y if o == "Add" else x - y if o == "Sub" else x * y
            return r if sym else r & mask
        if op.endswith("WithOverflow"):
            o = op[:3]
            if sym:
                r = x + y if o == "Add" else x - y if o == "Sub" else x * y
                if signed:
                    ov = {"Add": lambda: z3.Not(z3.And(z3.BVAddNoOverflow(x, y, True), z3.BVAddNoUnderflow(x, y))),
                          "Sub": lambda: z3.Not(z3.And(z3.BVSubNoOverflow(x, y), z3.BVSubNoUnderflow(x, y, True))),
                          "Mul": lambda: z3.Not(z3.And(z3.BVMulNoOverflow(x, y, True), z3.BVMulNoUnderflow(x, y)))}[o]()
                else:
                    ov = {"Add": lambda: z3.Not(z3.BVAddNoOverflow(x, y, False)), "Sub": lambda: z3.ULT(x, y),
                          "Mul": lambda: z3.Not(z3.BVMulNoOverflow(x, y, False))}[o]()
                return Agg([r, ov], "tuple")
            if signed: x, y = _sgn(x, w), _sgn(y, w)
            r = x + y if o == "Add" else x - y if o == "Sub" else x * y
            lo, hi = (-(1 << (w - 1)), (1 << (w - 1)) - 1) if signed else (0, mask)
            return Agg([r & mask, not (lo <= r <= hi)], "tuple")
        if op in ("BitAnd", "BitOr", "BitXor"):
            return x & y if op == "BitAnd" else x | y if op == "BitOr" else x ^ y
        if op in ("Div", "Rem"):
            if sym:
                if signed: return x / y if op == "Div" else z3.SRem(x, y)
                return z3.UDiv(x, y) if op == "Div" else z3.URem(x, y)
            if signed:
                x, y = _sgn(x, w), _sgn(y, w)
                q = abs(x) // abs(y) * (1 if (x < 0) == (y < 0) else -1)
                return (q if op == "Div" else x - q * y) & mask
            return x // y if op == "Div" else x % y
        raise Unsupported("binop " + op)

    # ---------------- calls
    def _by_name_table(self, c):
        """pest::unicode::{binary,category,script}::BY_NAME: rustc's allocation is not in the MIR dump; the (display name, trie)
        pairs are read from the generated source file, each trie standing for itself as a token naming its identifier"""
        mod = c.split("::")[-2] if "::" in c else None
        import native
        tabs = self.P.__dict__.setdefault("_by_name_tables", None) or native.unicode_tables()
        self.P.__dict__["_by_name_tables"] = tabs
        if mod not in tabs: return None
        arr = Agg([Agg([SliceRef(VecObj(list(disp.encode()), "static"), 0, len(disp.encode()), True), Ptr(Cell(Agg([ident], "TrieToken")))], "tuple") for disp, ident in tabs[mod]], "array")
        return SliceRef(arr, 0, len(arr.f))

    def unicode_property(self, name, c, via="fn"):
        """pest::unicode::<NAME>(c) (via="fn") or membership in the trie that sits in the BY_NAME table entry NAME
        (via="table", what unicode::by_name hands out): the ucd-trie lookup is not encoded; each set is obtained once per run
        from the compiled code, enumerated over all scalar values by verif-native, and used as a range predicate"""
        cache = self.P.__dict__.setdefault("_unicode_ranges", {})
        rs = cache.get((via, name))
        if rs is None:
            import native
            rep = native.run_lines("unicode-ranges", [{"fn": "fn:", "core": "core:"}.get(via, "") + name], timeout=600)[0]
            if not rep.startswith("OK"): raise Unsupported(f"unicode property {name} ({via}): {rep[:80]}")
            rs = [tuple(int(x, 16) for x in r.split("-")) for r in rep[3:].split(",") if r]
            cache[(via, name)] = rs
        if not is_sym(c):
            return any(a <= c <= b for a, b in rs)
        if len(rs) > self.W.user.get("unicode_range_limit", 400): raise Unsupported(f"unicode property {name} has {len(rs)} ranges: too large to encode")
        return z3.Or(*[z3.And(z3.UGE(c, a), z3.ULE(c, b)) if a != b else c == a for a, b in rs]) if rs else False

    def call(self, callee, key, args):
        if "unicode::" in key and len(args) == 1:
            m = re.search(r"(?:^|::)unicode::([A-Z][A-Z0-9_]*)$", key)
            if m: return self.unicode_property(m.group(1), args[0])
        if "Argument" in key and ("::new_" in key or key.endswith("::from_usize")) and "fmt" in callee:
            from .summaries_fmt import make_argument
            return make_argument(self, callee, key, args)
        if key.endswith("::parse") and "parse::<" in callee and "str" in key:
            tgt = callee[callee.rindex("parse::<") + 8:].rstrip(">")
            from .summaries_str import as_str, concrete_bytes
            b = concrete_bytes(as_str(self, args[0]))
            w = INT_W.get(tgt)
            if b is None and w is not None:
                from .summaries_str import parse_int_sym
                return parse_int_sym(self, as_str(self, args[0]), w, tgt[0] == "i")
            if b is None: raise Unsupported("str::parse of symbolic text")
            if w is None: raise Unsupported("str::parse::<" + tgt + ">")
            E = lambda: err(Agg([Enum("IntErrorKind", "InvalidDigit", 1)], "ParseIntError"))
            t = b.decode(errors="replace")
            signed = tgt[0] == "i"
            m = re.match(r"^([+-]?)(\d+)$", t)
            if not m or (m.group(1) == "-" and not signed): return E()
            v = int(m.group(2)) * (-1 if m.group(1) == "-" else 1)
            lo, hi = (-(1 << (w - 1)), (1 << (w - 1)) - 1) if signed else (0, (1 << w) - 1)
            if not lo <= v <= hi: return E()
            return ok(v & ((1 << w) - 1))
        if key.endswith("::collect") and "collect::<" in callee:
            tgt = callee[callee.rindex("collect::<") + 10:]
            from .summaries import iter_to_list
            if tgt.startswith(("Vec<", "alloc::vec::Vec<", "std::vec::Vec<")):
                return VecObj(iter_to_list(self, args[0]))
            if tgt.startswith(("String", "alloc::string::String", "std::string::String")):
                return self.S["<String as FromIterator>::from_iter"](self, args[0])
            if tgt.startswith(("Result<Vec<", "core::result::Result<Vec<", "Result<alloc::vec::Vec<", "std::result::Result<Vec<")):
                out = []
                for x in iter_to_list(self, args[0]):
                    if x.idx == 1: return x
                    out.append(x.f[0])
                return ok(VecObj(out))
            if tgt.startswith(("HashMap<String", "std::collections::HashMap<String", "HashMap<&str", "BTreeMap<String", "HashMap<alloc::string::String")):
                from .summaries_str import as_str, concrete_bytes
                m = MapObj()
                for kv in iter_to_list(self, args[0]):
                    kb = concrete_bytes(as_str(self, kv.f[0]))
                    if kb is None: raise Unsupported("map with symbolic keys")
                    m.d[kb] = Agg([kv.f[0], kv.f[1]], "tuple")
                return m
            if tgt.startswith(("HashSet<", "std::collections::HashSet<", "BTreeSet<")):
                from .summaries_str import as_str, concrete_bytes
                m = MapObj("HashSet")
                for k in iter_to_list(self, args[0]):
                    kb = concrete_bytes(as_str(self, k))
                    if kb is None: raise Unsupported("set with symbolic keys")
                    m.d[kb] = Agg([k, UNIT], "tuple")
                return m
            if tgt.startswith(("Option<Vec<",)):
                out = []
                for x in iter_to_list(self, args[0]):
                    if x.idx == 0: return x
                    out.append(x.f[0])
                return some(VecObj(out))
            raise Unsupported("collect into " + tgt[:60])
        s = self.S.get(key)
        if s is not None:
            self.cur_callee = callee
            return s(self, *args)
        if key[0] == "<":
            m = _TRAIT_CALL.match(key)
            if m:
                ty, tr, meth = m.group(1), m.group(2), m.group(3)
                if tr in ("Fn", "FnMut", "FnOnce") and meth in ("call", "call_mut", "call_once"):
                    return self.call_closure(args[0], args[1])
                if tr == "Into" and meth == "into":
                    # blanket impl: <T as Into<U>>::into(x) = <U as From<T>>::from(x); U is only in the unstripped path
                    mm = re.search(r" as Into<(.+)>>::into$", callee)
                    if mm:
                        tgt = norm_type(strip_generics(mm.group(1)))
                        for k2 in (f"<{tgt} as From<{norm_type(ty)}>>::from", f"<{tgt} as From>::from"):
                            s = self.S.get(k2)
                            if s is not None: return s(self, *args)
                        f = self.P.lookup(f"<{tgt} as From>::from")
                        if f is not None: return self.run(f, args)
                        if tgt == "Cow":
                            v = args[0]
                            return Enum("Cow", "Owned", 1, [v]) if type(v) is VecObj else Enum("Cow", "Borrowed", 0, [v])
                        rt = self.runtime_type(args[0])
                        if rt == tgt or (tgt == "String" and rt == "String"): return args[0]
                        raise Unsupported(f"Into<{tgt}> from {rt}")
                trl = tr.split("::")[-1]
                if trl in ("BitOr", "BitAnd", "BitXor") and meth in ("bitor", "bitand", "bitxor") and len(args) == 2:
                    # operator impls on references to primitives (`&u8 | u8`): the primitive operation on the pointees
                    vals = []
                    for a in args:
                        for _ in range(3):
                            u = unwrap_ptr(a)
                            if type(u) is Ptr: a = self.read(u.cell, u.path)
                            else: break
                        vals.append(a)
                    if all(isinstance(v, (int, bool)) or is_sym(v) for v in vals):
                        return self.binop(trl, vals[0], vals[1], norm_type(ty).lstrip("&"))
                if args and trl in ("PartialEq", "Clone", "Ord", "PartialOrd") and norm_type(ty) not in self.S_types_custom:
                    # derived impls on field-less enums / scalars: structural (two crates may define same-named types)
                    v0 = args[0]
                    for _ in range(4):
                        u = unwrap_ptr(v0)
                        if type(u) is Ptr: v0 = self.read(u.cell, u.path)
                        else: break
                    if (type(v0) is Enum and not v0.f and v0.ty not in ("Option", "Result", "Ordering")):
                        g = self.S.get(f"<_ as {trl}>::{meth}")
                        if g is not None: return g(self, *args)
                # normalised type
                k2 = f"<{norm_type(ty)} as {tr.split('::')[-1]}>::{meth}"
                s = self.S.get(k2)
                if s is not None: return s(self, *args)
                f = self.P.lookup(k2)
                if f is None and args:
                    # dispatch on the runtime type of the receiver (generic parameter / dyn)
                    rt = self.runtime_type(args[0])
                    if rt:
                        k3 = f"<{rt} as {tr.split('::')[-1]}>::{meth}"
                        s = self.S.get(k3)
                        if s is not None: return s(self, *args)
                        f = self.P.lookup(k3)
                if f is None:
                    s = self.S.get(f"<_ as {tr.split('::')[-1]}>::{meth}")
                    if s is not None: return s(self, *args)
                    raise Unsupported(f"callee {key}   [{callee}] (receiver {self.runtime_type(args[0]) if args else None})")
                return self.run(f, args)
        f = self.P.lookup_kind(key, False, self.cur_crate)
        if f is None:
            # summaries keyed by a suffix of the path (e.g. core::str::<impl str>::len)
            segs = key.split("::")
            for i in range(1, len(segs)):
                s = self.S.get("::".join(segs[i:]))
                if s is not None: return s(self, *args)
            raise Unsupported(f"callee {key}   [{callee}]")
        return self.run(f, args)

    def runtime_type(self, v):
        for _ in range(8):
            v2 = unwrap_ptr(v)
            if type(v2) is Ptr:
                v = self.read(v2.cell, v2.path)
            else:
                v = v2; break
        t = type(v)
        if t is Enum or t is Agg: return v.ty
        if t is VecObj: return v.ty
        if t is SliceRef: return "str" if v.is_str else "[]"
        if t is Closure: return "closure"
        if t is int or is_sym(v): return "int"
        if t is bool: return "bool"
        return None

    def call_closure(self, clo, argtuple):
        c = clo; last_ptr = None
        for _ in range(6):
            c2 = unwrap_ptr(c)
            if type(c2) is Ptr:
                last_ptr = c2                      # the pointer that leads directly to the value read next (through & / Box layers)
                c = self.read(c2.cell, c2.path)
            else:
                c = c2; break
        args = list(argtuple.f)
        if type(c) is PyClosure: return c.fn(self, *args)
        if type(c) is Closure:
            f = self.P.closures.get(c.loc)
            if f is None: raise Unsupported("closure body not found: " + c.loc)
            a0t = f.args[0][1]
            if a0t.startswith("&"):
                first = last_ptr if last_ptr is not None else Ptr(Cell(c))
            else:
                first = c
            return self.run(f, [first] + args)
        if type(c) is FnItem:
            return self.call(c.path, c.key, args)
        raise Unsupported(f"call of non-closure {c!r}")


    # ---------------- generic (derive-like) helpers used by summaries
    def clone_generic(self, v):
        t = type(v)
        if t is Agg:
            if v is UNIT: return v
            if v.ty in ("Rc", "Arc"): return Agg([v.f[0]], v.ty)
            if v.ty == "Box": return boxed(self.clone_generic(self.deref(v)))
            f = self.P.lookup(f"<{v.ty} as Clone>::clone") if v.ty not in ("tuple", "array") else None
            if f is not None and not self._is_derive(f):
                return self.run(f, [Ptr(Cell(v))])
            return Agg([self.clone_generic(x) for x in v.f], v.ty)
        if t is Enum:
            return Enum(v.ty, v.var, v.idx, [self.clone_generic(x) for x in v.f])
        if t is Closure:
            return Closure([self.clone_generic(x) for x in v.f], v.loc)
        if t is VecObj:
            return VecObj([self.clone_generic(x) for x in v.f], v.ty)
        if t is MapObj:
            m = MapObj(v.ty); m.d = {k: (kk, self.clone_generic(x)) for k, (kk, x) in v.d.items()}; return m
        return v

    def _is_derive(self, f):
        d = getattr(self.P, "_derive_cache", None)
        if d is None: d = self.P._derive_cache = {}
        r = d.get(id(f))
        if r is None:
            m = re.search(r"<impl at ([^:>]+):(\d+):(\d+): \d+:\d+>", f.name)
            r = True
            if m:
                txt = self.P.src_lines(m.group(1), f.crate)[int(m.group(2)) - 1][int(m.group(3)) - 1:]
                r = not (txt.startswith("impl") or txt.startswith("unsafe impl"))
            d[id(f)] = r
        return r

    def eq_generic(self, a, b):
        """structural equality (what derive(PartialEq) does); user impls found in the MIR are executed"""
        for _ in range(6):
            ua, ub = unwrap_ptr(a), unwrap_ptr(b)
            if type(ua) is Ptr and type(ub) is Ptr:
                a, b = self.read(ua.cell, ua.path), self.read(ub.cell, ub.path)
            else: break
        ta = type(a)
        if ta is int or ta is bool or is_sym(a):
            if ta is bool or (is_sym(a) and z3.is_bool(a)): return self.binop("Eq", a, b, "bool")
            return self.binop("Eq", a, b, None)
        if ta is Enum:
            if a.idx != b.idx: return False
            r = True
            for x, y in zip(a.f, b.f): r = _and(r, self.eq_generic(x, y))
            return r
        if ta is Agg:
            if a.ty not in ("tuple", "array", "unit"):
                f = self.P.lookup(f"<{a.ty} as PartialEq>::eq")
                if f is not None and not self._is_derive(f):
                    return self.run(f, [Ptr(Cell(a)), Ptr(Cell(b))])
            if len(a.f) != len(b.f): return False
            r = True
            for x, y in zip(a.f, b.f): r = _and(r, self.eq_generic(x, y))
            return r
        if ta is VecObj:
            if len(a.f) != len(b.f): return False
            r = True
            for x, y in zip(a.f, b.f): r = _and(r, self.eq_generic(x, y))
            return r
        if ta is SliceRef:
            if a.len != b.len: return False
            r = True
            for x, y in zip(a.items(), b.items()): r = _and(r, self.eq_generic(x, y))
            return r
        raise Unsupported(f"eq_generic of {a!r}")

    def cmp_generic(self, a, b, ty=None):
        """-> -1/0/1, forking on symbolic scalars (what derive(Ord) does)"""
        for _ in range(6):
            ua, ub = unwrap_ptr(a), unwrap_ptr(b)
            if type(ua) is Ptr and type(ub) is Ptr:
                a, b = self.read(ua.cell, ua.path), self.read(ub.cell, ub.path)
            else: break
        ta = type(a)
        if ta is bool: return (a > b) - (a < b)
        if ta is int and type(b) is int: return (a > b) - (a < b)
        if ta is int or is_sym(a):
            if self.W.branch(self.binop("Lt", a, b, ty or "usize")): return -1
            if self.W.branch(self.binop("Eq", a, b, ty or "usize")): return 0
            return 1
        if ta is Enum:
            if a.idx != b.idx: return (a.idx > b.idx) - (a.idx < b.idx)
            for x, y in zip(a.f, b.f):
                c = self.cmp_generic(x, y)
                if c: return c
            return 0
        if ta is Agg or ta is VecObj:
            for x, y in zip(a.f, b.f):
                c = self.cmp_generic(x, y)
                if c: return c
            return (len(a.f) > len(b.f)) - (len(a.f) < len(b.f))
        if ta is SliceRef:
            for x, y in zip(a.items(), b.items()):
                c = self.cmp_generic(x, y, "u8")
                if c: return c
            return (a.len > b.len) - (a.len < b.len)
        raise Unsupported(f"cmp_generic of {a!r}")

    def lt_generic(self, a, b):
        return self.cmp_generic(a, b) < 0

    def ordering(self, c):
        return Enum("Ordering", *(("Less", 0), ("Equal", 1), ("Greater", 2))[c + 1])

    # ---------------- execution
    def run(self, fn, args):
        W = self.W
        code = self.P.code(fn)
        self.fn_used.add(fn)
        frame = [Cell() for _ in range(fn.nlocals)]
        for (n, _), a in zip(fn.args, args): frame[n].v = a
        bb = 0
        self.depth += 1
        prev_crate = self.cur_crate; self.cur_crate = fn.crate
        if self.depth > 3000:
            raise StepLimit("call depth > 3000")
        maxs = W.ex.max_steps
        try:
            while True:
                nxt = None
                for st in code[bb]:
                    W.steps += 1
                    op = st[0]
                    if op == "assign":
                        v = self.rvalue(frame, st[2])
                        cell, path = self.resolve(frame, st[1])
                        self.write(cell, path, v)
                    elif op == "call":
                        args2 = [self.operand(frame, a) for a in st[4]]
                        r = self.call(st[2], st[3], args2)
                        cell, path = self.resolve(frame, st[1])
                        self.write(cell, path, r)
                        if st[5] is None: raise Panic("diverging call returned: " + st[2])
                        nxt = st[5]; break
                    elif op == "switch":
                        v = self.operand(frame, st[1])
                        nxt = self.switch(v, st[2], st[3], st[4]); break
                    elif op == "goto":
                        nxt = st[1]; break
                    elif op == "return":
                        r = frame[0].v
                        return r if r is not None else UNIT
                    elif op == "drop":
                        nxt = st[2]; break
                    elif op == "assert":
                        v = self.operand(frame, st[1])
                        okc = v if st[2] else (z3.Not(v) if is_sym(v) else (not v))
                        if W.branch(okc):
                            nxt = st[4]; break
                        raise Panic("assert failed: " + st[3][:120], "assert")
                    elif op == "unreachable":
                        raise Panic("unreachable reached (MIR)", "unreachable")
                    elif op == "setdiscr":
                        cell, path = self.resolve(frame, st[1])
                        raise Unsupported("SetDiscriminant")
                    elif op == "callptr":
                        f = self.operand(frame, st[2])
                        args2 = [self.operand(frame, a) for a in st[3]]
                        r = self.call_closure(f, Agg(args2, "tuple"))
                        cell, path = self.resolve(frame, st[1])
                        self.write(cell, path, r)
                        nxt = st[4]; break
                    elif op == "resume":
                        raise Panic("resume", "resume")
                    else:
                        raise Unsupported(f"statement {st!r} in {fn.name}")
                if W.steps > maxs:
                    raise StepLimit(f"step budget {maxs} exhausted in {fn.name}")
                if nxt is None:
                    raise Unsupported(f"fell off block bb{bb} in {fn.name}")
                bb = nxt
        except (Unsupported, AttributeError, TypeError, IndexError, KeyError) as e:
            st_ = getattr(e, "mir_stack", None)
            if st_ is None:
                st_ = []
                try: e.mir_stack = st_
                except Exception: pass
            if len(st_) < 12: st_.append(f"{fn.name} bb{bb}")
            raise
        finally:
            self.depth -= 1
            self.cur_crate = prev_crate

    def switch(self, v, targets, other, ty):
        if isinstance(v, bool): v = int(v)
        if type(v) is Enum: v = v.idx
        if not is_sym(v):
            for c, tgt in targets:
                if c < 0 and ty in INT_W: c &= (1 << INT_W[ty]) - 1
                if v == c: return tgt
            if other is None: raise Panic("switchInt: no target", "unreachable")
            return other
        isb = z3.is_bool(v)
        for c, tgt in targets:
            if isb: cond = v if c else z3.Not(v)
            else:
                if c < 0: c &= (1 << v.size()) - 1
                cond = (v == c)
            if self.W.branch(cond): return tgt
        if other is None: raise Panic("switchInt: no target", "unreachable")
        return other


_TRAIT_CALL = re.compile(r"<(.+) as ([^>]+?(?:<.*>)?)>::(\w+)$")


def _sgn(v, w): return v - (1 << w) if (v >> (w - 1)) else v
def _b(x): return x if is_sym(x) else z3.BoolVal(bool(x))


def _and(x, y):
    if x is False or y is False: return False
    if x is True: return y
    if y is True: return x
    return z3.And(x, y)


def _or(x, y):
    if x is True or y is True: return True
    if x is False: return y
    if y is False: return x
    return z3.Or(x, y)


def ptr_eq(x, y):
    x, y = unwrap_ptr(x), unwrap_ptr(y)
    if type(x) is SliceRef and type(y) is SliceRef:
        return x.obj is y.obj and x.start == y.start and x.len == y.len
    if type(x) is Ptr and type(y) is Ptr:
        return x.cell is y.cell and x.path == y.path
    return x is y


def _str_lit(c):
    """rust string literal text (as printed by MIR, with escapes) -> bytes"""
    body = c[1:c.rindex('"')]
    out = bytearray(); i = 0; n = len(body)
    while i < n:
        ch = body[i]
        if ch == "\\":
            i += 1; e = body[i]
            if e == "n": out.append(10)
            elif e == "r": out.append(13)
            elif e == "t": out.append(9)
            elif e == "0": out.append(0)
            elif e == "\\": out.append(92)
            elif e == '"': out.append(34)
            elif e == "'": out.append(39)
            elif e == "x":
                out.append(int(body[i + 1:i + 3], 16)); i += 2
            elif e == "u":
                j = body.index("}", i)
                out += chr(int(body[i + 2:j], 16)).encode(); i = j
            else: raise Unsupported("escape \\" + e)
            i += 1
        else:
            out += ch.encode(); i += 1
    return bytes(out)


def _char_lit(c):
    body = c[1:c.rindex("'")]
    if body.startswith("\\"):
        return _str_lit('"' + body + '"').decode()
    return body
