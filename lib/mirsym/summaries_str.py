"""Summaries: str / String / char."""
import z3
from .values import *
from .interp import _and, _or
from .summaries import S, summary, tup, conc, range_bounds, index_into, str_boundary_cond, mk_slice_iter, iter_to_list, it_next


def as_str(I, v):
    """String / &String / &str -> SliceRef"""
    v = unwrap_ptr(v)
    for _ in range(4):
        if type(v) is Ptr: v = I.read(v.cell, v.path); v = unwrap_ptr(v)
    if type(v) is VecObj: return SliceRef(v, 0, len(v.f), True)
    if type(v) is SliceRef: return v
    if type(v) is Enum and v.ty == "Cow":
        return as_str(I, v.f[0])
    raise Unsupported(f"as_str of {v!r}")


def bytes_eq(I, a, b):
    if a.len != b.len: return False
    r = True
    for x, y in zip(a.items(), b.items()):
        if is_sym(x) or is_sym(y): r = _and(r, x == y)
        elif x != y: return False
    return r


def concrete_bytes(s):
    it = s.items()
    if any(is_sym(x) for x in it): return None
    return bytes(it)


# ---------------- decoding
def decode_front(I, s):
    """-> (char value, nbytes) of the first char of non-empty str s; forks on the lead byte class"""
    f = s.obj.f; i = s.start
    b0 = f[i]
    if not is_sym(b0):
        if b0 < 0x80: return b0, 1
        n = 2 if b0 < 0xE0 else 3 if b0 < 0xF0 else 4
    else:
        if I.W.branch(z3.ULT(b0, 0x80)): return z3.ZeroExt(24, b0), 1
        n = 2 if I.W.branch(z3.ULT(b0, 0xE0)) else 3 if I.W.branch(z3.ULT(b0, 0xF0)) else 4
    if n > s.len: raise Unsupported("truncated UTF-8 sequence in a str (input not constrained to valid UTF-8?)")
    bs = [f[i + k] for k in range(n)]
    return compose(bs), n


def compose(bs):
    n = len(bs)
    if not any(is_sym(b) for b in bs):
        return ord(bytes(bs).decode("utf-8", errors="surrogatepass")) if n > 1 else bs[0]
    e = [z3.ZeroExt(24, b) if is_sym(b) else z3.BitVecVal(b, 32) for b in bs]
    if n == 2: return ((e[0] & 0x1F) << 6) | (e[1] & 0x3F)
    if n == 3: return ((e[0] & 0x0F) << 12) | ((e[1] & 0x3F) << 6) | (e[2] & 0x3F)
    return ((e[0] & 0x07) << 18) | ((e[1] & 0x3F) << 12) | ((e[2] & 0x3F) << 6) | (e[3] & 0x3F)


def decode_back(I, s):
    f = s.obj.f; e = s.start + s.len
    n = 1
    while True:
        b = f[e - n]
        if is_sym(b):
            cont = I.W.branch(z3.And(z3.UGE(b, 0x80), z3.ULT(b, 0xC0)))
        else:
            cont = (b & 0xC0) == 0x80
        if not cont: break
        n += 1
        if n > 4 or n > s.len: raise Unsupported("bad UTF-8 scanning backwards")
    bs = [f[e - n + k] for k in range(n)]
    if n == 1:
        b = bs[0]
        return (z3.ZeroExt(24, b) if is_sym(b) else b), 1
    return compose(bs), n


def chars_next(I, itp):
    it = I.deref(itp); s = it.f[0]
    if s.len == 0: return none()
    c, n = decode_front(I, s)
    it.f[0] = SliceRef(s.obj, s.start + n, s.len - n, True)
    return some(c)


def chars_next_back(I, itp):
    it = I.deref(itp); s = it.f[0]
    if s.len == 0: return none()
    c, n = decode_back(I, s)
    it.f[0] = SliceRef(s.obj, s.start, s.len - n, True)
    return some(c)


import mirsym.summaries as _sm
_sm.chars_next = chars_next
_sm.chars_next_back = chars_next_back


def char_len_utf8(I, c):
    if not is_sym(c): return 1 if c < 0x80 else 2 if c < 0x800 else 3 if c < 0x10000 else 4
    if I.W.branch(z3.ULT(c, 0x80)): return 1
    if I.W.branch(z3.ULT(c, 0x800)): return 2
    if I.W.branch(z3.ULT(c, 0x10000)): return 3
    return 4


def encode_char(I, c):
    n = char_len_utf8(I, c)
    if not is_sym(c): return list(chr(c).encode("utf-8", errors="surrogatepass"))
    x = lambda hi, lo: z3.Extract(hi, lo, c)
    b8 = lambda e: z3.Extract(7, 0, e)
    if n == 1: return [z3.Extract(7, 0, c)]
    if n == 2: return [b8((z3.LShR(c, 6) & 0x1F) | 0xC0), b8((c & 0x3F) | 0x80)]
    if n == 3: return [b8((z3.LShR(c, 12) & 0x0F) | 0xE0), b8((z3.LShR(c, 6) & 0x3F) | 0x80), b8((c & 0x3F) | 0x80)]
    return [b8((z3.LShR(c, 18) & 0x07) | 0xF0), b8((z3.LShR(c, 12) & 0x3F) | 0x80), b8((z3.LShR(c, 6) & 0x3F) | 0x80), b8((c & 0x3F) | 0x80)]


# ---------------- str
P = ("core::str::<impl str>::", "str::<impl str>::", "<impl str>::", "alloc::str::<impl str>::")


def sstr(*names):
    def deco(f):
        for n in names:
            for p in P: S[p + n] = f
        return f
    return deco


@sstr("len")
def _(I, s): return as_str(I, s).len
@sstr("is_empty")
def _(I, s): return as_str(I, s).len == 0
@sstr("as_bytes")
def _(I, s):
    s = as_str(I, s); return SliceRef(s.obj, s.start, s.len, False)
@sstr("as_ptr")
def _(I, s): raise Unsupported("str::as_ptr")
@sstr("is_char_boundary")
def _(I, s, i):
    s = as_str(I, s); i = conc(I, i)
    return str_boundary_cond(s.obj, s.start, s.len, i)
@sstr("get")
def _(I, s, rng):
    s = as_str(I, s)
    lo, hi = range_bounds(I, rng, s.len)
    if lo > hi or hi > s.len: return none()
    for b in (lo, hi):
        if not I.W.branch(str_boundary_cond(s.obj, s.start, s.len, b)): return none()
    return some(SliceRef(s.obj, s.start + lo, hi - lo, True))
@sstr("get_unchecked")
def _(I, s, rng):
    s = as_str(I, s); lo, hi = range_bounds(I, rng, s.len)
    return SliceRef(s.obj, s.start + lo, hi - lo, True)
@sstr("chars")
def _(I, s): return Agg([as_str(I, s)], "Chars")
@sstr("char_indices")
def _(I, s):
    s = as_str(I, s); return Agg([Agg([s], "Chars"), s.start], "CharIndices")
@sstr("bytes")
def _(I, s):
    s = as_str(I, s); return Agg([mk_slice_iter(SliceRef(s.obj, s.start, s.len, False))], "Copied")
@sstr("starts_with")
def _(I, s, pat):
    s = as_str(I, s)
    if isinstance(pat, int) or is_sym(pat):
        if s.len == 0: return False
        c, n = decode_front(I, s)
        return I.binop("Eq", c, pat, "char")
    p = as_str(I, pat)
    if p.len > s.len: return False
    return bytes_eq(I, SliceRef(s.obj, s.start, p.len), p)
@sstr("ends_with")
def _(I, s, pat):
    s = as_str(I, s); p = as_str(I, pat)
    if p.len > s.len: return False
    return bytes_eq(I, SliceRef(s.obj, s.start + s.len - p.len, p.len), p)
@sstr("strip_suffix")
def _(I, s, pat):
    s = as_str(I, s)
    if isinstance(pat, int) or is_sym(pat):
        pb = encode_char(I, pat)
    else:
        pb = list(as_str(I, pat).items())
    n = len(pb)
    if n > s.len: return none()
    tail = SliceRef(s.obj, s.start + s.len - n, n, True)
    if I.W.branch(bytes_eq(I, tail, SliceRef(VecObj(pb, "tmp"), 0, n, True))):
        return some(SliceRef(s.obj, s.start, s.len - n, True))
    return none()
@sstr("strip_prefix")
def _(I, s, pat):
    s = as_str(I, s)
    if isinstance(pat, int) or is_sym(pat):
        pb = encode_char(I, pat)
    else:
        pb = list(as_str(I, pat).items())
    n = len(pb)
    if n > s.len: return none()
    if I.W.branch(bytes_eq(I, SliceRef(s.obj, s.start, n, True), SliceRef(VecObj(pb, "tmp"), 0, n, True))):
        return some(SliceRef(s.obj, s.start + n, s.len - n, True))
    return none()
@sstr("eq_ignore_ascii_case")
def _(I, a, b):
    a, b = as_str(I, a), as_str(I, b)
    if a.len != b.len: return False
    r = True
    for x, y in zip(a.items(), b.items()): r = _and(r, lower_eq(x, y))
    return r
@sstr("to_owned", "to_string")
def _(I, s):
    s = as_str(I, s); return VecObj(list(s.items()), "String")
@sstr("split_at")
def _(I, s, k):
    s = as_str(I, s); k = conc(I, k)
    if k > s.len or not I.W.branch(str_boundary_cond(s.obj, s.start, s.len, k)): raise Panic("split_at: not a char boundary", "index")
    return tup(SliceRef(s.obj, s.start, k, True), SliceRef(s.obj, s.start + k, s.len - k, True))
@sstr("to_uppercase", "to_ascii_uppercase")
def _(I, s):
    b = concrete_bytes(as_str(I, s))
    if b is None: raise Unsupported("to_uppercase of symbolic text")
    return VecObj(list(b.decode().upper().encode()), "String")
@sstr("to_lowercase", "to_ascii_lowercase")
def _(I, s):
    b = concrete_bytes(as_str(I, s))
    if b is None: raise Unsupported("to_lowercase of symbolic text")
    return VecObj(list(b.decode().lower().encode()), "String")
@sstr("contains")
def _(I, s, pat):
    s = as_str(I, s)
    if isinstance(pat, int):
        r = False
        if pat < 0x80:
            for x in s.items(): r = _or(r, x == pat)
            return r
    if type(pat) is SliceRef or type(pat) is Ptr:
        nd = as_str(I, pat).items(); h = s.items()
        if not nd: return True
        r = False
        for i in range(0, len(h) - len(nd) + 1):
            c = True
            for k, b in enumerate(nd): c = _and(c, (h[i + k] == b) if (is_sym(h[i + k]) or is_sym(b)) else h[i + k] == b)
            r = _or(r, c)
        return r
    raise Unsupported("str::contains with this pattern")
@sstr("find")
def _(I, s, pat):
    s = as_str(I, s)
    if (isinstance(pat, int) and pat < 0x80):
        for i, x in enumerate(s.items()):
            if I.W.branch(x == pat if is_sym(x) else x == pat): return some(i)
        return none()
    raise Unsupported("str::find with this pattern")


@sstr("replace")
def _(I, s, pat, to):
    """str::replace with a char / &[char] pattern of ASCII chars (forks per byte on symbolic text)"""
    s = as_str(I, s); to_b = list(as_str(I, to).items())
    if isinstance(pat, int): pats = [pat]
    else:
        ps = unwrap_ptr(pat)
        if type(ps) is Ptr: ps = I.read(ps.cell, ps.path)
        pats = list(ps.items()) if type(ps) is SliceRef else list(ps.f)
    if any(is_sym(p) or p >= 0x80 for p in pats): raise Unsupported("str::replace with a non-ASCII / symbolic pattern")
    out = []
    for b in s.items():
        hit = (z3.Or(*[b == p for p in pats]) if is_sym(b) else b in pats)
        if I.W.branch(hit): out += to_b
        else: out.append(b)
    return VecObj(out, "String")


def _pat_pred(I, pat):
    """a char / &[char] / closure pattern -> predicate on a char value"""
    if isinstance(pat, int) or is_sym(pat): return lambda c: I.binop("Eq", c, pat, "char")
    v = unwrap_ptr(pat)
    if type(v) is Ptr: v = I.deref(v)
    if type(v) is SliceRef and not v.is_str:
        cs = list(v.items()); return lambda c: _or_all([I.binop("Eq", c, x, "char") for x in cs])
    if type(v) is Agg and v.ty == "array":
        cs = list(v.f); return lambda c: _or_all([I.binop("Eq", c, x, "char") for x in cs])
    if type(v) in (Closure, PyClosure, FnItem): return lambda c: I.call_closure(pat, Agg([c], "tuple"))
    raise Unsupported(f"pattern {v!r}")


def _or_all(xs):
    r = False
    for x in xs: r = _or(r, x)
    return r


def _trim_matches(front, back):
    def f(I, s, pat):
        s = as_str(I, s)
        if type(unwrap_ptr(pat)) is SliceRef and unwrap_ptr(pat).is_str: raise Unsupported("trim_matches with a str pattern")
        pred = _pat_pred(I, pat)
        st, ln = s.start, s.len
        while front and ln > 0:
            c, n = decode_front(I, SliceRef(s.obj, st, ln, True))
            if not I.W.branch(pred(c)): break
            st += n; ln -= n
        while back and ln > 0:
            # last char: step back over continuation bytes
            k = 1
            while k < ln and k < 4:
                b = s.obj.f[st + ln - k]
                cont = I.W.branch(z3.And(z3.UGE(b, 0x80), z3.ULT(b, 0xC0))) if is_sym(b) else 0x80 <= b < 0xC0
                if not cont: break
                k += 1
            c, n = decode_front(I, SliceRef(s.obj, st + ln - k, k, True))
            if not I.W.branch(pred(c)): break
            ln -= k
        return SliceRef(s.obj, st, ln, True)
    return f


for _p in P:
    S[_p + "trim_matches"] = _trim_matches(True, True)
    S[_p + "trim_start_matches"] = S[_p + "trim_left_matches"] = _trim_matches(True, False)
    S[_p + "trim_end_matches"] = S[_p + "trim_right_matches"] = _trim_matches(False, True)
_ws = lambda I: PyClosure(lambda I2, c: _or_all([I2.binop("Eq", c, x, "char") for x in (9, 10, 11, 12, 13, 32, 0x85, 0xA0, 0x1680, 0x2028, 0x2029, 0x202F, 0x205F, 0x3000)] + [_and(I2.binop("Ge", c, 0x2000, "char"), I2.binop("Le", c, 0x200A, "char"))]), "is_whitespace")
for _p in P:
    S[_p + "trim"] = (lambda I, s: _trim_matches(True, True)(I, s, _ws(I)))
    S[_p + "trim_start"] = (lambda I, s: _trim_matches(True, False)(I, s, _ws(I)))
    S[_p + "trim_end"] = (lambda I, s: _trim_matches(False, True)(I, s, _ws(I)))
for _nm in ("parse", "split", "lines", "repeat"):
    for _p in P: S[_p + _nm] = (lambda nm: (lambda I, *a: (_ for _ in ()).throw(Unsupported("str::" + nm + " not summarised"))))(_nm)


def lower_eq(x, y):
    def low(v):
        if is_sym(v): return z3.If(z3.And(z3.UGE(v, 65), z3.ULE(v, 90)), v | 0x20, v)
        return v | 0x20 if 65 <= v <= 90 else v
    a, b = low(x), low(y)
    if is_sym(a) or is_sym(b): return a == b
    return a == b


@summary("core::str::traits::<impl PartialEq for str>::eq", "<str as PartialEq>::eq", "<impl PartialEq for str>::eq",
         "<String as PartialEq>::eq", "<&str as PartialEq>::eq", "<str as PartialEq<String>>::eq", "<String as PartialEq<str>>::eq",
         "alloc::string::<impl PartialEq<&str> for String>::eq", "alloc::string::<impl PartialEq<str> for String>::eq",
         "<impl PartialEq<&str> for String>::eq", "<impl PartialEq<str> for String>::eq", "<impl PartialEq<String> for &str>::eq",
         "<impl PartialEq<String> for str>::eq", "alloc::string::<impl PartialEq<String> for &str>::eq",
         "alloc::string::<impl PartialEq<String> for str>::eq", "<Cow as PartialEq>::eq")
def str_eq(I, a, b): return bytes_eq(I, as_str(I, a), as_str(I, b))
@summary("core::str::traits::<impl PartialEq for str>::ne", "<str as PartialEq>::ne", "<String as PartialEq>::ne", "<&str as PartialEq>::ne",
         "<impl PartialEq<&str> for String>::ne", "<impl PartialEq<str> for String>::ne")
def _(I, a, b):
    r = bytes_eq(I, as_str(I, a), as_str(I, b))
    return z3.Not(r) if is_sym(r) else not r
@summary("core::str::traits::<impl Index for str>::index", "<str as Index>::index", "<impl Index for str>::index",
         "<String as Index>::index", "core::str::traits::<impl SliceIndex<str> for Range>::index")
def _(I, s, rng):
    s = as_str(I, s)
    return index_into(I, s.obj, s.start, s.len, rng, True)
@summary("core::str::from_utf8_unchecked", "str::from_utf8_unchecked", "from_utf8_unchecked")
def _(I, s): return SliceRef(s.obj, s.start, s.len, True)
@summary("<str as Ord>::cmp", "core::str::traits::<impl Ord for str>::cmp", "<String as Ord>::cmp", "<impl Ord for str>::cmp")
def str_cmp(I, a, b):
    a, b = as_str(I, a), as_str(I, b)
    for x, y in zip(a.items(), b.items()):
        if I.W.branch(I.binop("Lt", x, y, "u8")): return Enum("Ordering", "Less", 0)
        if I.W.branch(I.binop("Gt", x, y, "u8")): return Enum("Ordering", "Greater", 2)
    return Enum("Ordering", *(("Less", 0) if a.len < b.len else ("Equal", 1) if a.len == b.len else ("Greater", 2)))
@summary("<str as PartialOrd>::partial_cmp", "<String as PartialOrd>::partial_cmp")
def _(I, a, b): return some(str_cmp(I, a, b))
@summary("<str as ToOwned>::to_owned", "<str as ToString>::to_string", "<String as From<&str>>::from", "<String as From>::from",
         "<str as alloc::string::SpecToString>::spec_to_string", "<&str as Into<String>>::into", "<String as Clone>::clone",
         "<&str as ToString>::to_string", "<String as ToString>::to_string", "<String as ToOwned>::to_owned")
def _(I, s):
    s = as_str(I, s); return VecObj(list(s.items()), "String")
@summary("<&str as Into<Cow>>::into", "<Cow as From<&str>>::from")
def _(I, s): return Enum("Cow", "Borrowed", 0, [s])
@summary("<String as Into<Cow>>::into", "<Cow as From<String>>::from")
def _(I, s): return Enum("Cow", "Owned", 1, [s])
@summary("<Cow as Deref>::deref")
def _(I, c): return as_str(I, I.deref(c).f[0])


# ---------------- String
@summary("String::new")
def _(I): return VecObj([], "String")
@summary("String::with_capacity")
def _(I, n): return VecObj([], "String")
@summary("String::len")
def _(I, p): return len(I.deref(p).f)
@summary("String::is_empty")
def _(I, p): return len(I.deref(p).f) == 0
@summary("String::push")
def _(I, p, c):
    I.deref(p).f.extend(encode_char(I, c)); return UNIT
@summary("String::push_str")
def _(I, p, s):
    I.deref(p).f.extend(as_str(I, s).items()); return UNIT
@summary("String::as_str", "<String as Deref>::deref", "<String as AsRef<str>>::as_ref", "<String as AsRef>::as_ref", "<String as Borrow>::borrow",
         "String::as_mut_str", "<String as DerefMut>::deref_mut")
def _(I, p): return as_str(I, p)
@summary("String::as_bytes")
def _(I, p):
    s = as_str(I, p); return SliceRef(s.obj, s.start, s.len, False)
@summary("String::clear")
def _(I, p): I.deref(p).f.clear(); return UNIT
@summary("String::truncate")
def _(I, p, n):
    del I.deref(p).f[conc(I, n):]; return UNIT
@summary("String::pop")
def _(I, p):
    v = I.deref(p)
    if not v.f: return none()
    c, n = decode_back(I, SliceRef(v, 0, len(v.f), True))
    del v.f[len(v.f) - n:]
    return some(c)
@summary("String::from_utf8_unchecked", "String::from_utf8_lossy")
def _(I, v): return VecObj(list(v.f), "String")
@summary("String::into_bytes")
def _(I, v): return VecObj(list(v.f), "Vec")
@summary("<String as Default>::default")
def _(I): return VecObj([], "String")
@summary("<String as FromIterator>::from_iter", "<String as FromIterator<char>>::from_iter")
def _(I, it):
    out = []
    for c in iter_to_list(I, it):
        if type(c) is SliceRef or type(c) is VecObj: out.extend(as_str(I, c).items())
        else: out.extend(encode_char(I, c))
    return VecObj(out, "String")
@summary("<String as Extend>::extend")
def _(I, p, it):
    v = I.deref(p)
    for c in iter_to_list(I, it):
        if type(c) is SliceRef or type(c) is VecObj: v.f.extend(as_str(I, c).items())
        else: v.f.extend(encode_char(I, c))
    return UNIT
@summary("<String as Add<&str>>::add", "<String as Add>::add")
def _(I, s, o):
    s.f.extend(as_str(I, o).items()); return s
@summary("<String as AddAssign<&str>>::add_assign", "<String as AddAssign>::add_assign")
def _(I, p, o):
    I.deref(p).f.extend(as_str(I, o).items()); return UNIT


# ---------------- char
def cpred(fn_sym, fn_conc):
    def f(I, c):
        c = I.deref(c) if type(c) is Ptr else c
        if is_sym(c): return fn_sym(c)
        return fn_conc(c)
    return f


def rng_sym(*rs):
    return lambda c: z3.Or(*[z3.And(z3.UGE(c, a), z3.ULE(c, b)) for a, b in rs])


def rng_conc(*rs):
    return lambda c: any(a <= c <= b for a, b in rs)


CH = ("char::methods::<impl char>::", "core::char::methods::<impl char>::", "<impl char>::")
for nm, rs in {"is_ascii_digit": [(48, 57)], "is_ascii_alphabetic": [(65, 90), (97, 122)], "is_ascii_uppercase": [(65, 90)],
               "is_ascii_lowercase": [(97, 122)], "is_ascii_alphanumeric": [(48, 57), (65, 90), (97, 122)],
               "is_ascii_hexdigit": [(48, 57), (65, 70), (97, 102)], "is_ascii": [(0, 127)],
               "is_ascii_control": [(0, 31), (127, 127)], "is_ascii_punctuation": [(33, 47), (58, 64), (91, 96), (123, 126)],
               "is_ascii_graphic": [(33, 126)], "is_ascii_whitespace": [(9, 10), (12, 13), (32, 32)],
               "is_ascii_octdigit": [(48, 55)]}.items():
    for p in CH: S[p + nm] = cpred(rng_sym(*rs), rng_conc(*rs))
for p in CH:
    S[p + "len_utf8"] = char_len_utf8
    S[p + "is_whitespace"] = lambda I, c: (_ for _ in ()).throw(Unsupported("char::is_whitespace")) if is_sym(c) else chr(c).isspace()
    S[p + "from_u32"] = lambda I, v: char_from_u32(I, v)
    S[p + "to_ascii_uppercase"] = lambda I, c: _toupper(I.deref(c))
    S[p + "to_ascii_lowercase"] = lambda I, c: _tolower(I.deref(c))
    S[p + "eq_ignore_ascii_case"] = lambda I, a, b: I.binop("Eq", _tolower(I.deref(a)), _tolower(I.deref(b)), "char")
    S[p + "to_digit"] = lambda I, c, r: char_to_digit(I, c, r)
    S[p + "is_digit"] = lambda I, c, r: char_to_digit(I, c, r).idx == 1


def _toupper(c):
    if is_sym(c): return z3.If(z3.And(z3.UGE(c, 97), z3.ULE(c, 122)), c - 32, c)
    return c - 32 if 97 <= c <= 122 else c


def _tolower(c):
    if is_sym(c): return z3.If(z3.And(z3.UGE(c, 65), z3.ULE(c, 90)), c + 32, c)
    return c + 32 if 65 <= c <= 90 else c


def char_from_u32(I, v):
    if is_sym(v):
        okc = z3.Or(z3.ULT(v, 0xD800), z3.And(z3.UGT(v, 0xDFFF), z3.ULT(v, 0x110000)))
        return some(v) if I.W.branch(okc) else none()
    return some(v) if (v < 0xD800 or 0xDFFF < v < 0x110000) else none()


def char_to_digit(I, c, radix):
    radix = conc(I, radix)
    if is_sym(c):
        for lo, hi, base in ((48, 57, 48), (97, 122, 87), (65, 90, 55)):
            if I.W.branch(z3.And(z3.UGE(c, lo), z3.ULE(c, hi))):
                d = c - base
                if I.W.branch(z3.ULT(d, radix)): return some(d)
                return none()
        return none()
    d = c - 48 if 48 <= c <= 57 else c - 87 if 97 <= c <= 122 else c - 55 if 65 <= c <= 90 else 99
    return some(d) if d < radix else none()


@summary("char::from_u32", "core::char::from_u32", "std::char::from_u32", "char::convert::from_u32", "from_u32")
def _(I, v): return char_from_u32(I, v)
@summary("<char as From<u8>>::from", "<char as From>::from", "core::char::convert::<impl From<u8> for char>::from", "<impl From<u8> for char>::from")
def _(I, b): return z3.ZeroExt(24, b) if is_sym(b) else b
@summary("<u32 as From<char>>::from", "<impl From<char> for u32>::from")
def _(I, c): return c


def from_str_radix(width):
    def f(I, s, radix):
        s = as_str(I, s); radix = conc(I, radix)
        E = lambda: Enum("Result", "Err", 1, [Agg([Enum("IntErrorKind", "InvalidDigit", 1)], "ParseIntError")])
        if s.len == 0: return E()
        items = s.items(); k = 0
        if not is_sym(items[0]) and items[0] in (43,):   # '+'
            k = 1
            if s.len == 1: return E()
        elif is_sym(items[0]):
            if I.W.branch(items[0] == 43):
                k = 1
                if s.len == 1: return E()
            elif I.W.branch(items[0] == 45): return E()
        elif items[0] == 45: return E()
        acc = 0
        for b in items[k:]:
            c = z3.ZeroExt(24, b) if is_sym(b) else b
            d = char_to_digit(I, c, radix)
            if d.idx == 0: return E()
            dv = d.f[0]
            if is_sym(acc) or is_sym(dv):
                a64 = acc if is_sym(acc) else z3.BitVecVal(acc, 64)
                d64 = z3.ZeroExt(32, dv) if is_sym(dv) else z3.BitVecVal(dv, 64)
                acc = a64 * radix + d64
                if I.W.branch(z3.UGE(acc, 1 << width)): return E()
            else:
                acc = acc * radix + dv
                if acc >= (1 << width): return E()
        if is_sym(acc): acc = z3.Extract(width - 1, 0, acc)
        return ok(acc)
    return f


for _t, _w in (("u8", 8), ("u32", 32), ("usize", 64), ("u64", 64), ("u16", 16)):
    for pre in ("core::num::<impl %s>::" % _t, "<impl %s>::" % _t, "%s::" % _t, "core::num::<impl " + _t + ">::"):
        S[pre + "from_str_radix"] = from_str_radix(_w)


# ---------------- HashMap / BTreeMap with concrete string keys
def _key(I, k):
    s = as_str(I, k)
    b = concrete_bytes(s)
    if b is None: raise Unsupported("map lookup with a symbolic key")
    return b


@summary("HashMap::get", "std::collections::HashMap::get")
def _(I, mp, k):
    m = I.deref(mp)
    e = m.d.get(_key(I, k))
    return some(Ptr(Cell(e), (1,))) if e is not None else none()
@summary("HashMap::contains_key")
def _(I, mp, k): return _key(I, k) in I.deref(mp).d
@summary("HashMap::new", "<HashMap as Default>::default")
def _(I): return MapObj()
@summary("HashMap::insert")
def _(I, mp, k, v):
    m = I.deref(mp); kb = _key(I, k)
    old = m.d.get(kb)
    m.d[kb] = Agg([k, v], "tuple")
    return some(old.f[1]) if old is not None else none()
@summary("HashMap::len")
def _(I, mp): return len(I.deref(mp).d)


@summary("<&str as Borrow>::borrow", "<str as Borrow>::borrow", "<&str as AsRef>::as_ref", "<str as AsRef>::as_ref", "<&str as Deref>::deref")
def _(I, s): return as_str(I, s)


@summary("String::from_utf8", "alloc::string::String::from_utf8")
def _(I, v):
    """Ok(String) iff the bytes are well-formed UTF-8 (forks on the validity condition)"""
    from progsym import utf8_constraints
    bs = list(v.f)
    if not any(is_sym(b) for b in bs):
        try:
            bytes(bs).decode("utf-8"); return ok(VecObj(bs, "String"))
        except UnicodeDecodeError:
            return err(Agg([v], "FromUtf8Error"))
    sym = [b if is_sym(b) else z3.BitVecVal(b, 8) for b in bs]
    c = utf8_constraints(sym)
    if I.W.branch(c[0] if c else True): return ok(VecObj(bs, "String"))
    return err(Agg([v], "FromUtf8Error"))


for _p in ("core::num::<impl u8>::", "<impl u8>::", "u8::"):
    S[_p + "to_ascii_uppercase"] = lambda I, c: (lambda v: z3.If(z3.And(z3.UGE(v, 97), z3.ULE(v, 122)), v - 32, v) if is_sym(v) else (v - 32 if 97 <= v <= 122 else v))(I.deref(c))
    S[_p + "to_ascii_lowercase"] = lambda I, c: (lambda v: z3.If(z3.And(z3.UGE(v, 65), z3.ULE(v, 90)), v + 32, v) if is_sym(v) else (v + 32 if 65 <= v <= 90 else v))(I.deref(c))
    S[_p + "is_ascii_hexdigit"] = lambda I, c: (lambda v: z3.Or(z3.And(z3.UGE(v, 48), z3.ULE(v, 57)), z3.And(z3.UGE(v, 65), z3.ULE(v, 70)), z3.And(z3.UGE(v, 97), z3.ULE(v, 102))) if is_sym(v) else (48 <= v <= 57 or 65 <= v <= 70 or 97 <= v <= 102))(I.deref(c))
    S[_p + "is_ascii_digit"] = lambda I, c: (lambda v: z3.And(z3.UGE(v, 48), z3.ULE(v, 57)) if is_sym(v) else 48 <= v <= 57)(I.deref(c))
    S[_p + "is_ascii"] = lambda I, c: (lambda v: z3.ULT(v, 128) if is_sym(v) else v < 128)(I.deref(c))


def _encode_utf8(I, c, dst):
    d = unwrap_ptr(dst)
    if type(d) is Ptr:
        arr = I.read(d.cell, d.path); d = SliceRef(arr, 0, len(arr.f))
    bs = encode_char(I, c)
    if len(bs) > d.len: raise Panic("encode_utf8: buffer too small", "index")
    if type(d.obj.f) is tuple: d.obj.f = list(d.obj.f)
    for i, b in enumerate(bs): d.obj.f[d.start + i] = b
    return SliceRef(d.obj, d.start, len(bs), True)


for p in CH: S[p + "encode_utf8"] = _encode_utf8
S["Vec::extend_from_slice"] = lambda I, p, s: (I.deref(p).f.extend(as_str(I, s).items() if getattr(s, "is_str", False) else (s.items() if type(s) is SliceRef else iter_to_list(I, s))), UNIT)[1]


def _map_entries(I, mp):
    m = I.deref(mp) if type(unwrap_ptr(mp)) is Ptr else mp
    return m


@summary("<&HashMap as IntoIterator>::into_iter", "HashMap::iter", "<&BTreeMap as IntoIterator>::into_iter")
def _(I, mp):
    m = _map_entries(I, mp)
    return Agg([VecObj([tup(Ptr(Cell(e), (0,)), Ptr(Cell(e), (1,))) for e in m.d.values()]), 0], "ListIter")
@summary("HashMap::keys")
def _(I, mp):
    m = _map_entries(I, mp)
    return Agg([VecObj([Ptr(Cell(e), (0,)) for e in m.d.values()]), 0], "ListIter")
@summary("HashMap::values")
def _(I, mp):
    m = _map_entries(I, mp)
    return Agg([VecObj([Ptr(Cell(e), (1,)) for e in m.d.values()]), 0], "ListIter")
@summary("<HashMap as IntoIterator>::into_iter")
def _(I, m):
    return Agg([VecObj([tup(e.f[0], e.f[1]) for e in m.d.values()]), 0], "ListIter")
for _t in ("std::collections::hash_map::Iter", "hash_map::Iter", "std::collections::hash_map::Keys", "std::collections::hash_map::Values", "hash_map::Keys", "hash_map::Values", "std::collections::hash_map::IntoIter"):
    S[f"<{_t} as Iterator>::next"] = it_next


@summary("LazyLock::new", "std::sync::LazyLock::new")
def _(I, f): return Agg([f, None], "LazyLock")
@summary("<LazyLock as Deref>::deref", "LazyLock::force")
def _(I, p):
    l = I.deref(p)
    if l.f[1] is None:
        l.f[1] = I.call_closure(l.f[0], Agg([], "tuple"))
    u = unwrap_ptr(p)
    return Ptr(u.cell, u.path + (1,))
@summary("HashSet::contains", "BTreeSet::contains")
def _(I, sp, k):
    m = I.deref(sp)
    s_ = as_str(I, k)
    kb = concrete_bytes(s_)
    if kb is not None: return kb in m.d
    # symbolic key: compare with every member
    r = False
    for mk in m.d:
        r = _or(r, bytes_eq(I, s_, SliceRef(VecObj(list(mk)), 0, len(mk), True)))
    return r
@summary("HashSet::new", "<HashSet as Default>::default")
def _(I): return MapObj("HashSet")
@summary("HashSet::insert")
def _(I, sp, k):
    m = I.deref(sp); kb = _key(I, k)
    if kb in m.d: return False
    m.d[kb] = Agg([k, UNIT], "tuple"); return True
@summary("<HashSet as Extend>::extend", "HashSet::extend", "<BTreeSet as Extend>::extend")
def _(I, sp, it):
    m = I.deref(sp)
    src = I.deref(it) if type(unwrap_ptr(it)) is Ptr else it
    items = [e.f[0] for e in src.d.values()] if type(src) is MapObj else iter_to_list(I, it)
    for k in items:
        kb = concrete_bytes(as_str(I, k))
        if kb is None: raise Unsupported("set with symbolic keys")
        m.d.setdefault(kb, Agg([k, UNIT], "tuple"))
    return UNIT
@summary("HashSet::len")
def _(I, sp): return len(I.deref(sp).d)
@summary("HashSet::iter", "<&HashSet as IntoIterator>::into_iter")
def _(I, sp):
    m = I.deref(sp)
    return Agg([VecObj([Ptr(Cell(e), (0,)) for e in m.d.values()]), 0], "ListIter")
@summary("<HashSet as IntoIterator>::into_iter")
def _(I, m): return Agg([VecObj([e.f[0] for e in m.d.values()]), 0], "ListIter")


@summary("HashSet::difference")
def _(I, a, b):
    ma, mb = I.deref(a), I.deref(b)
    return Agg([VecObj([Ptr(Cell(e), (0,)) for k, e in ma.d.items() if k not in mb.d]), 0], "ListIter")
@summary("HashSet::intersection")
def _(I, a, b):
    ma, mb = I.deref(a), I.deref(b)
    return Agg([VecObj([Ptr(Cell(e), (0,)) for k, e in ma.d.items() if k in mb.d]), 0], "ListIter")
for _t in ("std::collections::hash_set::Difference", "hash_set::Difference", "std::collections::hash_set::Iter", "hash_set::Iter", "std::collections::hash_set::IntoIter", "std::collections::hash_set::Intersection"):
    S[f"<{_t} as Iterator>::next"] = it_next


# formatting is not modelled: a formatted String is a placeholder (its content never influences control flow in the front-end)
def _format_placeholder(I, *a): return VecObj(list(b"<formatted>"), "String")


for _n in ("alloc::fmt::format", "std::fmt::format", "fmt::format", "format", "alloc::fmt::format::format_inner", "format_inner"):
    S[_n] = _format_placeholder
S["<String as core::fmt::Write>::write_fmt"] = S["<String as Write>::write_fmt"] = lambda I, p, a: ok(UNIT)


def _unicode_property_names(I):
    """pest::unicode::unicode_property_names(): the three static name tables are `stringify!`ed macro arguments whose data lives
    in rustc allocations the MIR dump does not expose; the names are read from pest/src/unicode/mod.rs (as check C16 does)"""
    from props.c16 import read_names
    binary, cat, scr = read_names()
    items = [SliceRef(VecObj(list(n.encode()), "static"), 0, len(n), True) for n in binary + cat + scr]
    return boxed(Agg([VecObj(items), 0], "ListIter"))


S["unicode_property_names"] = S["unicode::unicode_property_names"] = S["pest::unicode::unicode_property_names"] = _unicode_property_names


def parse_int_sym(I, s, w, signed):
    """str::parse::<uN/iN>() on possibly symbolic text: optional sign, decimal digits, overflow -> Err (forks per byte)"""
    E = lambda: Enum("Result", "Err", 1, [Agg([Enum("IntErrorKind", "InvalidDigit", 1)], "ParseIntError")])
    items = list(s.items())
    if not items: return E()
    neg = False; k = 0
    b0 = items[0]
    if I.W.branch((b0 == 43) if is_sym(b0) else b0 == 43): k = 1
    elif I.W.branch((b0 == 45) if is_sym(b0) else b0 == 45):
        if not signed: return E()
        neg = True; k = 1
    if k == len(items): return E()
    acc = 0
    for b in items[k:]:
        isd = z3.And(z3.UGE(b, 48), z3.ULE(b, 57)) if is_sym(b) else 48 <= b <= 57
        if not I.W.branch(isd): return E()
        d = (z3.ZeroExt(120, b) - 48) if is_sym(b) else b - 48
        if is_sym(acc) or is_sym(d):
            a128 = acc if is_sym(acc) else z3.BitVecVal(acc, 128)
            d128 = d if is_sym(d) else z3.BitVecVal(d, 128)
            acc = a128 * 10 + d128
        else:
            acc = acc * 10 + d
        lim = (1 << (w - 1)) + (1 if neg else 0) if signed else (1 << w)
        over = z3.UGE(acc, lim) if is_sym(acc) else acc >= lim
        if I.W.branch(over): return E()
    if is_sym(acc):
        v = z3.Extract(w - 1, 0, acc)
        return ok(-v if neg else v)
    return ok((-acc if neg else acc) & ((1 << w) - 1))
