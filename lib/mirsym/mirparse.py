"""Parse `rustc -Zunpretty=mir` text into a pre-digested program.

Every statement is parsed once into a tuple whose first element is an opcode string; the interpreter
(interp.py) dispatches on it.  Nothing here knows about values or solvers."""
import re, hashlib, os

# --------------------------------------------------------------------------- text helpers
OPEN = "([{"
CLOSE = ")]}"


def split_top(s, sep=","):
    """split on sep at bracket depth 0; understands () [] {} <> and string/char literals."""
    out, depth, cur, i, n = [], 0, [], 0, len(s)
    while i < n:
        c = s[i]
        if c == '"':
            j = i + 1
            while j < n and s[j] != '"':
                if s[j] == "\\": j += 1
                j += 1
            cur.append(s[i:j + 1]); i = j + 1; continue
        if c == "'" and i + 2 < n:
            # char literal 'x' or '\n' or '\u{..}'  (not a lifetime: lifetimes are 'ident without closing quote)
            m = re.match(r"'(\\u\{[0-9a-fA-F]+\}|\\.|[^\\'])'", s[i:])
            if m:
                cur.append(m.group(0)); i += m.end(); continue
        if c in OPEN: depth += 1
        elif c in CLOSE: depth -= 1
        elif c == "<": depth += 1
        elif c == ">" and i > 0 and s[i - 1] not in "-=": depth -= 1
        if c == sep and depth == 0:
            out.append("".join(cur).strip()); cur = []
        else:
            cur.append(c)
        i += 1
    t = "".join(cur).strip()
    if t: out.append(t)
    return out


def match_paren(s, i):
    """s[i] is an opening bracket; return the index of its match (counts only the same bracket kind;
    skips string and char literals)."""
    op = s[i]; cl = {"(": ")", "[": "]", "{": "}", "<": ">"}[op]
    d, j, n = 0, i, len(s)
    while j < n:
        c = s[j]
        if c == '"':
            j += 1
            while s[j] != '"':
                if s[j] == "\\": j += 1
                j += 1
        elif c == "'":
            m = re.match(r"'(\\u\{[0-9a-fA-F]+\}|\\.|[^\\'])'", s[j:])
            if m: j += m.end() - 1
        elif c == op: d += 1
        elif c == cl and not (cl == ">" and s[j - 1] in "-="):
            d -= 1
            if d == 0: return j
        j += 1
    raise ValueError("unbalanced: " + s)


_sg_cache = {}


def strip_generics(s):
    """ParserState::<'_, R>::rule::<F> -> ParserState::rule ; <Vec<T> as Deref>::deref -> <Vec as Deref>::deref"""
    r = _sg_cache.get(s)
    if r is not None: return r
    out = []; i = 0; n = len(s)
    while i < n:
        c = s[i]
        if c == "<" and out and (out[-1].isalnum() or out[-1] in "_:]"):
            d = 0; j = i
            while j < n:
                if s[j] == "<": d += 1
                elif s[j] == ">" and s[j - 1] not in "-=":
                    d -= 1
                    if d == 0: break
                j += 1
            grp = s[i:j + 1]
            if grp.startswith("<impl "):
                inner = grp[6:-1]
                out.append("<impl []>" if inner.startswith("[") else "<impl " + strip_generics(inner) + ">")
                i = j + 1; continue
            if out[-1] == ":":   # turbofish ::<..>
                out.pop(); out.pop()
            i = j + 1; continue
        out.append(c); i += 1
    r = "".join(out)
    r = re.sub(r"'\w+ ?", "", r)
    r = r.replace("&mut ", "&").replace("dyn ", "dyn ")
    _sg_cache[s] = r
    return r


INT_W = {"usize": 64, "isize": 64, "u8": 8, "i8": 8, "u16": 16, "i16": 16, "u32": 32, "i32": 32,
         "u64": 64, "i64": 64, "u128": 128, "i128": 128, "char": 32, "bool": 1}

# --------------------------------------------------------------------------- places
_place_cache = {}


def parse_place(s):
    """-> (local, proj tuple).  proj items:
       ('deref',) ('field', i, type_str) ('down', variant_name) ('index', local) ('cindex', i, from_end:bool)
       ('subslice', from, to, from_end)"""
    s = s.strip()
    r = _place_cache.get(s)
    if r is None:
        r = _parse_place(s)
        _place_cache[s] = r
    return r


def _parse_place(s):
    if s.endswith("]") and not s.startswith("["):
        k = len(s) - 1; d = 0
        while k >= 0:
            if s[k] == "]": d += 1
            elif s[k] == "[":
                d -= 1
                if d == 0: break
            k -= 1
        base, idx = s[:k], s[k + 1:-1]
        loc, proj = _parse_place(base)
        m = re.match(r"_(\d+)$", idx)
        if m: return loc, proj + (("index", int(m.group(1))),)
        m = re.match(r"(-?\d+) of (\d+)$", idx)
        if m:
            i = int(m.group(1))
            return loc, proj + (("cindex", abs(i), i < 0 or idx.startswith("-")),)
        m = re.match(r"(\d+):(-?\d*)$", idx)
        if m:
            to = m.group(2)
            return loc, proj + (("subslice", int(m.group(1)), abs(int(to)) if to else 0, to.startswith("-")),)
        raise ValueError("index form " + s)
    if s.startswith("(") and s.endswith(")") and match_paren(s, 0) == len(s) - 1:
        inner = s[1:-1].strip()
        if inner.startswith("*"):
            loc, proj = _parse_place(inner[1:])
            return loc, proj + (("deref",),)
        if inner.startswith("("):
            e = match_paren(inner, 0); base, rest = inner[:e + 1], inner[e + 1:]
        else:
            m = re.match(r"_\d+(\[[^\]]*\])*", inner); base, rest = m.group(0), inner[m.end():]
        rest = rest.strip()
        while rest.startswith("["):
            e2 = match_paren(rest, 0)
            base += rest[:e2 + 1]; rest = rest[e2 + 1:].strip()
        loc, proj = _parse_place(base)
        if rest.startswith("as "):
            t = rest[3:].strip()
            if t.startswith("variant#"):
                return loc, proj + (("down", int(t[8:])),)
            return loc, proj + (("down", t),)
        m = re.match(r"\.(\d+)\s*:\s*(.*)$", rest, re.S)
        if m: return loc, proj + (("field", int(m.group(1)), m.group(2).strip()),)
        raise ValueError("place form " + s)
    m = re.match(r"_(\d+)$", s)
    if m: return int(m.group(1)), ()
    raise ValueError("place " + s)


# --------------------------------------------------------------------------- operands / rvalues
def parse_operand(s):
    s = s.strip()
    if s.startswith("copy "): return ("copy", parse_place(s[5:]))
    if s.startswith("move "): return ("move", parse_place(s[5:]))
    if s.startswith("no_retag "): return parse_operand(s[9:])
    if s.startswith("const "): return ("const", s[6:].strip())
    if re.match(r"^[<\w]", s) and not s.startswith(("copy", "move")):
        return ("fnitem", s)          # a function item used as a value, e.g. `SpanOrLiteral::<'_>::as_borrowed_or_rc`
    raise ValueError("operand " + s)


BINOPS = {"Eq", "Ne", "Lt", "Le", "Gt", "Ge", "Add", "Sub", "Mul", "BitAnd", "BitOr", "BitXor", "Shl", "Shr",
          "AddWithOverflow", "SubWithOverflow", "MulWithOverflow", "Div", "Rem", "AddUnchecked", "SubUnchecked",
          "MulUnchecked", "ShlUnchecked", "ShrUnchecked", "Offset", "Cmp"}
UNOPS = {"Not", "Neg", "PtrMetadata"}


def parse_rvalue(s):
    s = s.strip()
    if s.startswith(("copy ", "move ", "const ", "no_retag ")):
        if not s.startswith('const "'):
            m = re.match(r"(.+) as (.+) \((\w+(?:\(.*\))?)\)$", s, re.S)
            if m:
                return ("cast", parse_operand(m.group(1)), m.group(2).strip(), m.group(3))
        return ("use", parse_operand(s))
    if s.startswith("&"):
        body = s[1:]
        kind = "ref"
        for pre, k in (("raw const ", "raw"), ("raw mut ", "raw"), ("mut ", "ref"), ("fake shallow ", "ref"), ("fake ", "ref"), ("two_phase ", "ref")):
            if body.startswith(pre):
                body = body[len(pre):]; kind = k; break
        for pre in ("(fake) ", "(fake shallow) "):            # `&raw const (fake) (*_1)`: the borrow a match guard takes
            if body.startswith(pre): body = body[len(pre):]
        return ("ref", parse_place(body))
    m = re.match(r"(\w+)\((.*)\)$", s, re.S)
    if m:
        op = m.group(1)
        if op in BINOPS:
            a, b = split_top(m.group(2))
            return ("binop", op, parse_operand(a), parse_operand(b))
        if op in UNOPS:
            return ("unop", op, parse_operand(m.group(2)))
        if op == "discriminant":
            return ("discr", parse_place(m.group(2)))
        if op == "Len":
            return ("len", parse_place(m.group(2)))
        if op == "CopyForDeref" or op == "deref_copy":
            return ("use", ("copy", parse_place(m.group(2))))
        if op == "ShallowInitBox":
            a = split_top(m.group(2))
            return ("shallow_box", parse_operand(a[0]))
        if op in ("SizeOf", "AlignOf", "OffsetOf", "UbChecks", "ContractChecks"):
            return ("nullop", op, m.group(2))
    if s.startswith("deref_copy "):
        return ("use", ("copy", parse_place(s[11:])))
    # tuple
    if s.startswith("(") and match_paren(s, 0) == len(s) - 1:
        parts = split_top(s[1:-1])
        return ("agg", "tuple", None, tuple(parse_operand(p) for p in parts if p))
    if s.startswith("["):
        inner = s[1:match_paren(s, 0)]
        parts = split_top(inner, ";")
        if len(parts) == 2 and len(split_top(parts[0])) == 1:
            return ("repeat", parse_operand(parts[0]), parts[1].strip())
        return ("agg", "array", None, tuple(parse_operand(p) for p in split_top(inner)))
    if s.startswith("{closure@") or s.startswith("{coroutine@"):
        e = match_paren(s, 0)
        loc = s[len("{closure@"):e]
        rest = s[e + 1:].strip()
        caps = []
        if rest.startswith("{"):
            for p in split_top(rest[1:match_paren(rest, 0)]):
                if p: caps.append(parse_operand(p.split(":", 1)[1]))
        elif rest.startswith("("):
            for p in split_top(rest[1:match_paren(rest, 0)]):
                if p: caps.append(parse_operand(p))
        return ("agg", "closure", loc, tuple(caps))
    # ADT:  Path::Variant(args) | Path { f: v, .. } | Path::Variant | Path
    # find the body start: last top-level '(' or ' {' group at the very end
    body = None; head = s
    if s.endswith(")"):
        # matching open paren
        d = 0; k = len(s) - 1
        while k >= 0:
            if s[k] == ")": d += 1
            elif s[k] == "(":
                d -= 1
                if d == 0: break
            k -= 1
        head, body = s[:k], ("(", s[k + 1:-1])
    elif s.endswith("}"):
        d = 0; k = len(s) - 1
        while k >= 0:
            if s[k] == "}": d += 1
            elif s[k] == "{":
                d -= 1
                if d == 0: break
            k -= 1
        head, body = s[:k].rstrip(), ("{", s[k + 1:-1])
    path = strip_generics(head.strip())
    args = []
    names = None
    if body:
        names = []
        for p in split_top(body[1]):
            if not p: continue
            if body[0] == "{":
                nm, p = p.split(":", 1)
                names.append(nm.strip())
            args.append(parse_operand(p))
    return ("agg", "adt", path, tuple(args))


# --------------------------------------------------------------------------- statements
def parse_stmt(st):
    """returns a tuple; terminators and statements share the namespace."""
    if st.startswith(("StorageLive", "StorageDead", "ConstEvalCounter", "FakeRead", "Retag", "PlaceMention", "nop",
                      "Coverage", "AscribeUserType", "Assume", "assume(", "BackwardIncompatibleDropHint")):
        return None
    if st == "return": return ("return",)
    if st.startswith("goto -> "): return ("goto", int(st[10:]))
    if st == "unreachable": return ("unreachable",)
    if st.startswith("resume") or st.startswith("terminate") or st.startswith("unwind"): return ("resume",)
    if st.startswith("drop("):
        m = re.search(r"return: bb(\d+)", st)
        e = match_paren(st, 4)
        return ("drop", parse_place(st[5:e]), int(m.group(1)))
    if st.startswith("switchInt("):
        e = match_paren(st, 9)
        op = parse_operand(st[10:e])
        targets = []
        other = None
        for val, tgt in re.findall(r"(-?\w+): bb(\d+)", st[e:]):
            if val == "otherwise": other = int(tgt)
            else: targets.append((int(val), int(tgt)))
        return ("switch", op, tuple(targets), other)
    if st.startswith("assert("):
        e = match_paren(st, 6)
        inner = split_top(st[7:e])
        c = inner[0]; neg = c.startswith("!")
        m = re.search(r"success: bb(\d+)", st)
        return ("assert", parse_operand(c[1:] if neg else c), not neg, inner[1] if len(inner) > 1 else "", int(m.group(1)))
    if st.startswith("set_discriminant") or st.startswith("discriminant("):
        m = re.match(r"discriminant\((.*)\) = (\d+)$", st)
        if m: return ("setdiscr", parse_place(m.group(1)), int(m.group(2)))
    if st.startswith("deinit("):
        return None
    if st.startswith("copy_nonoverlapping") or st.startswith("intrinsic"):
        return ("unsupported", st)
    eq = st.find(" = ")
    if eq < 0:
        return ("unsupported", st)
    lhs, rhs = st[:eq], st[eq + 3:]
    m = re.search(r"\) -> (\[return: bb(\d+).*\]|unwind .*|bb\d+)$", rhs, re.S)
    if m:
        callpart = rhs[:m.start() + 1]
        d = 0; k = len(callpart) - 1
        # skip string literals scanning backwards is messy; arguments are operands (no nested call), so a plain
        # bracket count is right unless a const string contains brackets: handle by masking strings first
        masked = _mask_strings(callpart)
        while k >= 0:
            if masked[k] == ")": d += 1
            elif masked[k] == "(":
                d -= 1
                if d == 0: break
            k -= 1
        callee, argstr = callpart[:k].strip(), callpart[k + 1:-1]
        args = tuple(parse_operand(a) for a in split_top(argstr) if a)
        ret = int(m.group(2)) if m.group(2) is not None else None
        if callee.startswith(("move ", "copy ")):
            return ("callptr", parse_place(lhs), parse_operand(callee), args, ret)
        return ("call", parse_place(lhs), callee, strip_generics(callee), args, ret)
    return ("assign", parse_place(lhs), parse_rvalue(rhs))


def _mask_strings(s):
    out = list(s); i = 0; n = len(s)
    while i < n:
        if s[i] == '"':
            j = i + 1
            while j < n and s[j] != '"':
                if s[j] == "\\": out[j] = "_"; j += 1
                if j < n: out[j] = "_"
                j += 1
            i = j + 1; continue
        if s[i] == "'":
            m = re.match(r"'(\\u\{[0-9a-fA-F]+\}|\\.|[^\\'])'", s[i:])
            if m:
                for k in range(i + 1, i + m.end() - 1): out[k] = "_"
                i += m.end(); continue
        i += 1
    return "".join(out)


# --------------------------------------------------------------------------- functions / file
class Fn:
    __slots__ = ("name", "args", "ret", "locals", "blocks", "hash", "crate", "is_const", "nlocals", "raw", "keys", "file")

    def __repr__(self): return f"<Fn {self.name}>"


HDR = re.compile(r"^fn (.+?)\((.*)\) -> (.+) \{$")


def parse_file(path, crate):
    """-> list of Fn (functions, promoted consts, statics as zero-arg Fns)"""
    fns = []
    lines = open(path, errors="replace").read().split("\n")
    i, n = 0, len(lines)
    cur = None; blk = None; body_lines = None
    while i < n:
        line = lines[i]; i += 1
        if cur is None:
            if line.startswith("fn "):
                # header may be very long but is one line
                m = HDR.match(line)
                if not m: continue
                cur = Fn(); cur.name = m.group(1); cur.ret = m.group(3); cur.crate = crate; cur.is_const = False
                cur.args = []
                for a in split_top(m.group(2)):
                    am = re.match(r"(?:mut )?_(\d+): (.+)$", a, re.S)
                    cur.args.append((int(am.group(1)), am.group(2)))
                cur.locals = {k: t for k, t in cur.args}
                cur.blocks = {}; blk = None; body_lines = [line]
                continue
            m = re.match(r"(?:const|static(?: mut)?) (.+) = \{$", line)
            nt = _split_name_type(m.group(1)) if m else None
            if nt:
                cur = Fn(); cur.name = nt[0]; cur.ret = nt[1]; cur.args = []; cur.crate = crate; cur.is_const = True
                cur.locals = {}; cur.blocks = {}; blk = None; body_lines = [line]
                continue
            continue
        body_lines.append(line)
        if line == "}":
            cur.hash = hashlib.sha256("\n".join(body_lines).encode()).hexdigest()[:12]
            cur.nlocals = (max(cur.locals) + 1) if cur.locals else 1
            fns.append(cur); cur = None; continue
        s = line.strip()
        if blk is None:
            m = re.match(r"let (?:mut )?_(\d+): (.+);$", s)
            if m:
                cur.locals[int(m.group(1))] = m.group(2); continue
            m = re.match(r"bb(\d+)(?: \(cleanup\))?: \{$", s)
            if m:
                blk = []; cur.blocks[int(m.group(1))] = blk
            continue
        if s == "}":
            blk = None; continue
        if not s or s.startswith("//"): continue
        while not s.endswith(";") and i < n:
            nxt = lines[i].strip(); i += 1
            body_lines.append(nxt)
            s += " " + nxt
        blk.append(s[:-1])
    return fns


def _split_name_type(t):
    """'NAME: TYPE' where NAME may contain '<impl at a.rs:1:2: 3:4>' -> (NAME, TYPE)"""
    d = 0
    for i, c in enumerate(t):
        if c == "<": d += 1
        elif c == ">" and t[i - 1] not in "-=": d -= 1
        elif c == ":" and d == 0 and t[i + 1:i + 2] == " " and t[i - 1] != ":":
            return t[:i], t[i + 2:]
    return None


def const_table(path):
    """simple `const NAME: T = const V;` items"""
    out = {}
    for m in re.finditer(r"^const ([\w:<> ,']+?): ([\w:]+) = const (.+);$", open(path, errors="replace").read(), re.M):
        out[m.group(1).split("::")[-1]] = m.group(3)
    return out
