"""Summaries of core/alloc/std callees over the value model. Each is part of the trusted base and is
validated by per-path native replay. Keys are callee paths after strip_generics()."""
import re
import z3
from .values import *
from .interp import ptr_eq, _and, _or

S = {}


def summary(*names):
    def deco(f):
        for n in names: S[n] = f
        return f
    return deco


def tup(*a): return Agg(list(a), "tuple")


def vec_of(I, p):
    v = I.deref(p)
    if type(v) is not VecObj:
        raise Unsupported(f"expected Vec, got {v!r}")
    return v


def conc(I, v):
    return I.W.choose(v) if is_sym(v) else v


def range_bounds(I, rng, n):
    """Range / RangeFrom / RangeTo / RangeFull / RangeInclusive / RangeToInclusive -> (lo, hi) concrete"""
    t = rng.ty
    if t == "Range": lo, hi = rng.f[0], rng.f[1]
    elif t == "RangeFrom": lo, hi = rng.f[0], n
    elif t == "RangeTo": lo, hi = 0, rng.f[0]
    elif t == "RangeFull": lo, hi = 0, n
    elif t == "RangeInclusive": lo, hi = rng.f[0], conc(I, rng.f[1]) + 1
    elif t == "RangeToInclusive": lo, hi = 0, conc(I, rng.f[0]) + 1
    else: raise Unsupported("range type " + t)
    return conc(I, lo), conc(I, hi)


# ------------------------------------------------------------------ Vec
@summary("Vec::new")
def _(I): return VecObj()
@summary("Vec::with_capacity")
def _(I, n): return VecObj()
@summary("Vec::len")
def _(I, p): return len(vec_of(I, p).f)
@summary("Vec::is_empty")
def _(I, p): return len(vec_of(I, p).f) == 0
@summary("Vec::push")
def _(I, p, x): vec_of(I, p).f.append(x); return UNIT
@summary("Vec::pop")
def _(I, p):
    it = vec_of(I, p).f
    return some(it.pop()) if it else none()
@summary("Vec::clear")
def _(I, p): vec_of(I, p).f.clear(); return UNIT
@summary("Vec::truncate")
def _(I, p, n):
    n = conc(I, n); it = vec_of(I, p).f
    del it[n:]; return UNIT
@summary("<Vec as Deref>::deref", "<Vec as DerefMut>::deref_mut", "Vec::as_slice", "Vec::as_mut_slice",
         "<Vec as AsRef>::as_ref", "<Vec as Borrow>::borrow")
def _(I, p):
    v = vec_of(I, p); return SliceRef(v, 0, len(v.f))
@summary("Vec::drain")
def _(I, p, rng):
    v = vec_of(I, p)
    lo, hi = range_bounds(I, rng, len(v.f))
    if lo > hi: raise Panic(f"slice index starts at {lo} but ends at {hi}", "index")
    if hi > len(v.f): raise Panic(f"range end index {hi} out of range for slice of length {len(v.f)}", "index")
    out = v.f[lo:hi]; del v.f[lo:hi]
    return Agg([VecObj(out)], "Drain")
@summary("Vec::splice")
def _(I, p, rng, repl):
    v = vec_of(I, p)
    lo, hi = range_bounds(I, rng, len(v.f))
    if lo > hi or hi > len(v.f): raise Panic("splice range", "index")
    new = iter_to_list(I, repl)
    old = v.f[lo:hi]; v.f[lo:hi] = new
    return Agg([VecObj(old)], "Drain")
@summary("<Vec as Extend>::extend", "Vec::extend_from_slice", "Vec::append")
def _(I, p, it):
    vec_of(I, p).f.extend(iter_to_list(I, it)); return UNIT
@summary("<Vec as Index>::index", "<Vec as IndexMut>::index_mut")
def _(I, p, i):
    v = vec_of(I, p)
    return index_into(I, v, 0, len(v.f), i, False)
@summary("<Vec as Clone>::clone")
def _(I, p):
    v = vec_of(I, p)
    return VecObj([I.clone_generic(x) for x in v.f], v.ty)
@summary("<Vec as IntoIterator>::into_iter")
def _(I, v): return Agg([VecObj(list(I.deref(v).f) if type(v) is not VecObj else v.f), 0], "ListIter")
@summary("<&Vec as IntoIterator>::into_iter", "<&mut Vec as IntoIterator>::into_iter")
def _(I, p):
    v = vec_of(I, p); return mk_slice_iter(SliceRef(v, 0, len(v.f)))
@summary("Vec::last", "Vec::last_mut")
def _(I, p):
    v = vec_of(I, p)
    return some(Ptr(Cell(v), (len(v.f) - 1,))) if v.f else none()
@summary("Vec::insert")
def _(I, p, i, x):
    v = vec_of(I, p); i = conc(I, i)
    if i > len(v.f): raise Panic("insertion index out of bounds", "index")
    v.f.insert(i, x); return UNIT
@summary("Vec::remove")
def _(I, p, i):
    v = vec_of(I, p); i = conc(I, i)
    if i >= len(v.f): raise Panic("removal index out of bounds", "index")
    return v.f.pop(i)
@summary("Vec::reserve", "Vec::shrink_to_fit", "Vec::reserve_exact")
def _(I, *a): return UNIT
@summary("Vec::capacity")
def _(I, p): return len(vec_of(I, p).f)
@summary("alloc::slice::<impl []>::into_vec", "slice::<impl []>::into_vec")
def _(I, b):
    if type(b) is Agg and b.ty == "BoxSlice": return VecObj(list(b.f[0].items()))
    v = I.deref(b)
    if type(v) is Agg and v.ty == "array": return VecObj(list(v.f))
    raise Unsupported(f"into_vec of {b!r}")
@summary("alloc::slice::<impl []>::to_vec", "slice::<impl []>::to_vec")
def _(I, s): return VecObj([I.clone_generic(x) for x in s.items()])
@summary("alloc::vec::from_elem", "vec::from_elem", "from_elem")
def _(I, x, n):
    n = conc(I, n)
    return VecObj([clone_val(x) for _ in range(n)])
@summary("Vec::dedup")
def _(I, p):
    v = vec_of(I, p); out = []
    for x in v.f:
        if out and I.W.branch(I.eq_generic(out[-1], x)): continue
        out.append(x)
    v.f[:] = out; return UNIT
@summary("alloc::slice::<impl []>::sort", "slice::<impl []>::sort", "core::slice::<impl []>::sort_unstable")
def _(I, s):
    items = s.items()
    # insertion sort with the generic comparison (forks on symbolic keys)
    out = []
    for x in items:
        k = len(out)
        while k > 0 and I.W.branch(I.lt_generic(x, out[k - 1])): k -= 1
        out.insert(k, x)
    s.obj.f[s.start:s.start + s.len] = out
    return UNIT
@summary("Vec::iter", "Vec::iter_mut")
def _(I, p):
    v = vec_of(I, p); return mk_slice_iter(SliceRef(v, 0, len(v.f)))
@summary("<Vec as FromIterator>::from_iter", "Vec::from_iter")
def _(I, it): return VecObj(iter_to_list(I, it))
@summary("<Vec as PartialEq>::eq")
def _(I, a, b):
    x, y = vec_of(I, a), vec_of(I, b)
    if len(x.f) != len(y.f): return False
    r = True
    for p, q in zip(x.f, y.f): r = _and(r, I.eq_generic(p, q))
    return r
@summary("<Vec as Default>::default")
def _(I): return VecObj()
@summary("Vec::contains")
def _(I, p, x):
    xv = I.deref(x); r = False
    for y in vec_of(I, p).f: r = _or(r, I.eq_generic(y, xv))
    return r
@summary("Vec::retain")
def _(I, p, f):
    v = vec_of(I, p); out = []
    for i, x in enumerate(list(v.f)):
        keep = I.call_closure(f, tup(Ptr(Cell(v), (i,))))
        if I.W.branch(keep): out.append(x)
    v.f[:] = out; return UNIT


# ------------------------------------------------------------------ slices
def index_into(I, obj, start, ln, i, is_str):
    if type(i) is Agg and i.ty.startswith("Range"):
        lo, hi = range_bounds(I, i, ln)
        if lo > hi: raise Panic(f"slice index starts at {lo} but ends at {hi}", "index")
        if hi > ln: raise Panic(f"range end index {hi} out of range for slice of length {ln}", "index")
        if is_str:
            for b in (lo, hi):
                if not I.W.branch(str_boundary_cond(obj, start, ln, b)):
                    raise Panic(f"byte index {b} is not a char boundary", "index")
        return SliceRef(obj, start + lo, hi - lo, is_str)
    i = conc(I, i)
    if i >= ln: raise Panic(f"index out of bounds: the len is {ln} but the index is {i}", "index")
    return Ptr(Cell(obj), (start + i,))


def str_boundary_cond(obj, start, ln, b):
    """condition for offset b being a char boundary of the str (obj,start,ln)"""
    if b == 0 or b == ln: return True
    if b > ln: return False
    x = obj.f[start + b]
    if is_sym(x): return z3.Or(z3.ULT(x, 0x80), z3.UGE(x, 0xC0))
    return (x & 0xC0) != 0x80


@summary("core::slice::<impl []>::len", "slice::<impl []>::len", "<impl []>::len")
def _(I, s): return s.len
@summary("core::slice::<impl []>::is_empty", "<impl []>::is_empty")
def _(I, s): return s.len == 0
@summary("core::slice::<impl []>::last", "core::slice::<impl []>::last_mut", "<impl []>::last", "<impl []>::last_mut")
def _(I, s):
    if s.len == 0: return none()
    return some(Ptr(Cell(s.obj), (s.start + s.len - 1,)))
@summary("core::slice::<impl []>::first", "core::slice::<impl []>::first_mut", "<impl []>::first")
def _(I, s):
    if s.len == 0: return none()
    return some(Ptr(Cell(s.obj), (s.start,)))
@summary("core::slice::<impl []>::get", "core::slice::<impl []>::get_mut", "<impl []>::get", "<impl []>::get_mut")
def _(I, s, i):
    if type(i) is Agg and i.ty.startswith("Range"):
        lo, hi = range_bounds(I, i, s.len)
        if lo > hi or hi > s.len: return none()
        return some(SliceRef(s.obj, s.start + lo, hi - lo, s.is_str))
    i = conc(I, i)
    if i >= s.len: return none()
    return some(Ptr(Cell(s.obj), (s.start + i,)))
@summary("core::slice::<impl []>::iter", "core::slice::<impl []>::iter_mut", "<impl []>::iter", "<impl []>::iter_mut",
         "<&[] as IntoIterator>::into_iter", "<&mut [] as IntoIterator>::into_iter")
def _(I, s): return mk_slice_iter(s)
@summary("<[] as Index>::index", "<[] as IndexMut>::index_mut", "core::slice::index::<impl Index for []>::index",
         "core::slice::index::<impl IndexMut for []>::index_mut", "<impl Index for []>::index", "<impl IndexMut for []>::index_mut")
def _(I, s, i):
    s = unwrap_ptr(s)
    if type(s) is Ptr:
        a = I.deref(s); return index_into(I, a, 0, len(a.f), i, False)
    return index_into(I, s.obj, s.start, s.len, i, s.is_str)
@summary("core::slice::<impl []>::contains", "<impl []>::contains")
def _(I, s, x):
    xv = I.deref(x); r = False
    for y in s.items(): r = _or(r, I.eq_generic(y, xv))
    return r
@summary("core::slice::<impl []>::split_at", "<impl []>::split_at")
def _(I, s, k):
    k = conc(I, k)
    if k > s.len: raise Panic("mid > len", "index")
    return tup(SliceRef(s.obj, s.start, k, s.is_str), SliceRef(s.obj, s.start + k, s.len - k, s.is_str))
@summary("core::slice::<impl []>::starts_with", "<impl []>::starts_with")
def _(I, s, n):
    if n.len > s.len: return False
    r = True
    for a, b in zip(s.items(), n.items()): r = _and(r, I.eq_generic(a, b))
    return r
@summary("core::slice::cmp::<impl PartialEq for []>::eq", "<[] as PartialEq>::eq", "<impl PartialEq for []>::eq")
def _(I, a, b):
    a, b = unwrap_ptr(a), unwrap_ptr(b)
    if a.len != b.len: return False
    r = True
    for p, q in zip(a.items(), b.items()): r = _and(r, I.eq_generic(p, q))
    return r
@summary("core::array::<impl Index for []>::index", "<impl Index for []>::index")
def _(I, a, i):
    arr = I.deref(a)
    return index_into(I, arr, 0, len(arr.f), i, False)


# slice iterator: Agg([SliceRef, front, back], 'SliceIter')  (front/back concrete)
def mk_slice_iter(s): return Agg([s, 0, s.len], "SliceIter")


def slice_iter_next(I, itp):
    it = I.deref(itp)
    s, a, b = it.f
    if a >= b: return none()
    it.f[1] = a + 1
    return some(Ptr(Cell(s.obj), (s.start + a,)))


def slice_iter_next_back(I, itp):
    it = I.deref(itp)
    s, a, b = it.f
    if a >= b: return none()
    it.f[2] = b - 1
    return some(Ptr(Cell(s.obj), (s.start + b - 1,)))


# ------------------------------------------------------------------ generic iterator protocol over model iterators
def _range_ty(a, b):
    """element type of a Range<uN> from the width of a symbolic bound (concrete bounds: usize)"""
    for v in (a, b):
        if is_sym(v): return {8: "u8", 16: "u16", 32: "u32", 64: "usize", 128: "u128"}[v.size()]
    return "usize"


def it_next(I, itp):
    """advance a model iterator behind pointer itp; returns Option"""
    it = I.deref(itp)
    t = it.ty
    if t == "SliceIter": return slice_iter_next(I, itp)
    if t == "Box":            # Box<dyn Iterator>
        return it_next(I, unwrap_ptr(it))
    if t == "ListIter":
        v, k = it.f
        if k >= len(v.f): return none()
        it.f[1] = k + 1
        return some(v.f[k])
    if t == "Drain":
        v = it.f[0]
        return some(v.f.pop(0)) if v.f else none()
    if t == "Rev": return it_next_back(I, Ptr(Cell(it), (0,)))
    if t == "Chars": return chars_next(I, itp)
    if t == "CharIndices":
        ch = it.f[0]
        pos = ch.f[0].start - it.f[1]
        r = chars_next(I, Ptr(Cell(it), (0,)))
        if r.idx == 0: return r
        return some(tup(pos, r.f[0]))
    if t == "Cloned" or t == "Copied":
        r = it_next(I, Ptr(Cell(it), (0,)))
        if r.idx == 0: return r
        return some(I.clone_generic(I.deref(r.f[0])))
    if t == "Map":
        r = it_next(I, Ptr(Cell(it), (0,)))
        if r.idx == 0: return r
        return some(I.call_closure(Ptr(Cell(it), (1,)), tup(r.f[0])))
    if t == "Skip":
        n = it.f[1]
        while n > 0:
            it.f[1] = n = n - 1
            if it_next(I, Ptr(Cell(it), (0,))).idx == 0: return none()
        return it_next(I, Ptr(Cell(it), (0,)))
    if t == "Take":
        if it.f[1] == 0: return none()
        it.f[1] -= 1
        return it_next(I, Ptr(Cell(it), (0,)))
    if t == "SkipWhile":
        while not it.f[2]:
            r = it_next(I, Ptr(Cell(it), (0,)))
            if r.idx == 0: return r
            c = I.call_closure(Ptr(Cell(it), (1,)), tup(Ptr(Cell(r), (0,))))
            if not I.W.branch(c):
                it.f[2] = True
                return r
        return it_next(I, Ptr(Cell(it), (0,)))
    if t == "TakeWhile":
        if it.f[2]: return none()
        r = it_next(I, Ptr(Cell(it), (0,)))
        if r.idx == 0: return r
        c = I.call_closure(Ptr(Cell(it), (1,)), tup(Ptr(Cell(r), (0,))))
        if I.W.branch(c): return r
        it.f[2] = True
        return none()
    if t == "Filter":
        while True:
            r = it_next(I, Ptr(Cell(it), (0,)))
            if r.idx == 0: return r
            c = I.call_closure(Ptr(Cell(it), (1,)), tup(Ptr(Cell(r), (0,))))
            if I.W.branch(c): return r
    if t == "FilterMap":
        while True:
            r = it_next(I, Ptr(Cell(it), (0,)))
            if r.idx == 0: return r
            o = I.call_closure(Ptr(Cell(it), (1,)), tup(r.f[0]))
            if o.idx == 1: return o
    if t == "FlatMap":
        while True:
            if it.f[2] is not None:
                r = it_next(I, Ptr(Cell(it), (2,)))
                if r.idx == 1: return r
                it.f[2] = None
            r = it_next(I, Ptr(Cell(it), (0,)))
            if r.idx == 0: return r
            inner = I.call_closure(Ptr(Cell(it), (1,)), tup(r.f[0]))
            it.f[2] = Agg([VecObj(iter_to_list(I, inner)), 0], "ListIter")
    if t == "Enumerate":
        r = it_next(I, Ptr(Cell(it), (0,)))
        if r.idx == 0: return r
        k = it.f[1]; it.f[1] = k + 1
        return some(tup(k, r.f[0]))
    if t == "Peekable":
        pk = it.f[1]
        if pk.idx == 1:
            it.f[1] = none()
            return pk.f[0]
        return it_next(I, Ptr(Cell(it), (0,)))
    if t == "Chain":
        if it.f[0] is not None:
            r = it_next(I, Ptr(Cell(it), (0,)))
            if r.idx == 1: return r
            it.f[0] = None
        return it_next(I, Ptr(Cell(it), (1,)))
    if t == "Range":
        a, b = it.f
        ty = _range_ty(a, b)
        if I.W.branch(I.binop("Lt", a, b, ty)):
            it.f[0] = I.binop("Add", a, 1, ty)
            return some(a)
        return none()
    if t == "RangeFrom":
        a = it.f[0]; it.f[0] = I.binop("Add", a, 1, "i32"); return some(a)
    if t == "Zip":
        r1 = it_next(I, Ptr(Cell(it), (0,)))
        if r1.idx == 0: return r1
        r2 = it_next(I, Ptr(Cell(it), (1,)))
        if r2.idx == 0: return r2
        return some(tup(r1.f[0], r2.f[0]))
    # an iterator implemented in the analysed crates
    f = I.P.lookup(f"<{t} as Iterator>::next")
    if f is not None: return I.run(f, [itp])
    raise Unsupported("next() of iterator " + t)


def it_next_back(I, itp):
    it = I.deref(itp)
    t = it.ty
    if t == "SliceIter": return slice_iter_next_back(I, itp)
    if t == "ListIter":
        v, k = it.f
        if k >= len(v.f): return none()
        return some(v.f.pop())
    if t == "Drain":
        v = it.f[0]
        return some(v.f.pop()) if v.f else none()
    if t == "Rev": return it_next(I, Ptr(Cell(it), (0,)))
    if t == "Chars": return chars_next_back(I, itp)
    if t == "CharIndices":
        ch = it.f[0]
        r = chars_next_back(I, Ptr(Cell(it), (0,)))
        if r.idx == 0: return r
        s = ch.f[0]
        return some(tup(s.start + s.len - it.f[1], r.f[0]))
    if t == "Map":
        r = it_next_back(I, Ptr(Cell(it), (0,)))
        if r.idx == 0: return r
        return some(I.call_closure(Ptr(Cell(it), (1,)), tup(r.f[0])))
    if t == "Cloned" or t == "Copied":
        r = it_next_back(I, Ptr(Cell(it), (0,)))
        if r.idx == 0: return r
        return some(I.clone_generic(I.deref(r.f[0])))
    if t == "Range":
        a, b = it.f
        ty = _range_ty(a, b)
        if I.W.branch(I.binop("Lt", a, b, ty)):
            it.f[1] = I.binop("Sub", b, 1, ty)
            return some(it.f[1])
        return none()
    if t == "Chain":
        r = it_next_back(I, Ptr(Cell(it), (1,)))
        if r.idx == 1: return r
        if it.f[0] is None: return r
        return it_next_back(I, Ptr(Cell(it), (0,)))
    if t == "Enumerate":
        raise Unsupported("next_back() of Enumerate")
    f = I.P.lookup(f"<{t} as DoubleEndedIterator>::next_back")
    if f is not None: return I.run(f, [itp])
    raise Unsupported("next_back() of iterator " + t)


def iter_to_list(I, it):
    """consume an iterator value (or an IntoIterator value) into a python list"""
    it = unwrap_ptr(it) if type(it) is Agg and it.ty in ("Box",) else it
    if type(it) is VecObj: return list(it.f)
    if type(it) is SliceRef: return [I.clone_generic(x) for x in it.items()]
    if type(it) is Ptr:
        v = I.deref(it)
        if type(v) is VecObj: return [Ptr(Cell(v), (i,)) for i in range(len(v.f))]
    if type(it) is Enum and it.ty == "Option":
        return [it.f[0]] if it.idx == 1 else []
    if type(it) is Agg and it.ty == "array": return list(it.f)
    out = []
    p = Ptr(Cell(it))
    while True:
        r = it_next(I, p)
        if r.idx == 0: return out
        out.append(r.f[0])
        if len(out) > 100000: raise StepLimit("iterator does not end")


ITER_TYPES = ["core::slice::Iter", "core::slice::IterMut", "alloc::vec::Drain", "alloc::vec::IntoIter", "Rev", "Chars", "CharIndices",
              "Cloned", "Copied", "Map", "Skip", "Take", "SkipWhile", "TakeWhile", "Filter", "Enumerate", "Peekable", "Chain",
              "core::ops::Range", "Range", "Zip", "std::slice::Iter", "std::vec::IntoIter", "std::vec::Drain", "std::slice::IterMut",
              "core::str::Chars", "core::str::CharIndices", "I", "Iter", "IterMut", "IntoIter", "Drain",
              # str iterators whose summaries return a ListIter (lines, split*, matches, ...)
              "Lines", "std::str::Lines", "core::str::Lines", "Split", "std::str::Split", "core::str::Split", "SplitN", "std::str::SplitN",
              "SplitInclusive", "std::str::SplitInclusive", "SplitWhitespace", "std::str::SplitWhitespace", "SplitTerminator", "std::str::SplitTerminator"]


def _adapt(name, ctor):
    def f(I, it, *a): return ctor(I, it, *a)
    for t in ITER_TYPES + ["_"]:
        S[f"<{t} as Iterator>::{name}"] = f
    return f


for _t in ITER_TYPES + ["_"]:
    S[f"<{_t} as Iterator>::next"] = it_next
    S[f"<{_t} as DoubleEndedIterator>::next_back"] = it_next_back
    S[f"<{_t} as IntoIterator>::into_iter"] = lambda I, it: it

_adapt("rev", lambda I, it: Agg([it], "Rev"))
_adapt("cloned", lambda I, it: Agg([it], "Cloned"))
_adapt("copied", lambda I, it: Agg([it], "Copied"))
_adapt("map", lambda I, it, f: Agg([it, f], "Map"))
_adapt("skip", lambda I, it, n: Agg([it, conc(I, n)], "Skip"))
_adapt("take", lambda I, it, n: Agg([it, conc(I, n)], "Take"))
_adapt("skip_while", lambda I, it, f: Agg([it, f, False], "SkipWhile"))
_adapt("take_while", lambda I, it, f: Agg([it, f, False], "TakeWhile"))
_adapt("filter", lambda I, it, f: Agg([it, f], "Filter"))
_adapt("enumerate", lambda I, it: Agg([it, 0], "Enumerate"))
_adapt("peekable", lambda I, it: Agg([it, none()], "Peekable"))
def _as_iter(I, o):
    """the argument of zip / chain is an IntoIterator: a slice / Vec / Option value becomes its iterator"""
    u = unwrap_ptr(o)
    if type(o) is SliceRef: return mk_slice_iter(o)
    if type(o) is VecObj: return Agg([o, 0], "ListIter")
    if type(u) is Ptr:
        v = I.deref(u)
        if type(v) is VecObj: return mk_slice_iter(SliceRef(v, 0, len(v.f)))
        if type(v) is SliceRef: return mk_slice_iter(v)
    if type(o) is Enum and o.ty == "Option": return Agg([VecObj([o.f[0]] if o.idx == 1 else []), 0], "ListIter")
    return o


_adapt("chain", lambda I, it, o: Agg([it, _as_iter(I, o)], "Chain"))
_adapt("zip", lambda I, it, o: Agg([it, _as_iter(I, o)], "Zip"))
_adapt("by_ref", lambda I, it: it)
_adapt("filter_map", lambda I, it, f: Agg([it, f], "FilterMap"))
_adapt("flat_map", lambda I, it, f: Agg([it, f, None], "FlatMap"))
_adapt("flatten", lambda I, it: Agg([it, PyClosure(lambda I2, x: x, "id"), None], "FlatMap"))


def _find(I, itp, f):
    while True:
        r = it_next(I, itp)
        if r.idx == 0: return r
        if I.W.branch(I.call_closure(f, tup(Ptr(Cell(r), (0,))))): return r


def _all(I, itp, f):
    while True:
        r = it_next(I, itp)
        if r.idx == 0: return True
        if not I.W.branch(I.call_closure(f, tup(r.f[0]))): return False


def _any(I, itp, f):
    while True:
        r = it_next(I, itp)
        if r.idx == 0: return False
        if I.W.branch(I.call_closure(f, tup(r.f[0]))): return True


def _consuming(name, fn):
    for t in ITER_TYPES + ["_"]:
        S[f"<{t} as Iterator>::{name}"] = fn


_consuming("find", _find)
_consuming("all", _all)
_consuming("any", _any)
_consuming("collect", lambda I, it: Agg([iter_to_list(I, it)], "Collected"))
_consuming("count", lambda I, it: len(iter_to_list(I, it)))
_consuming("last", lambda I, it: (lambda l: some(l[-1]) if l else none())(iter_to_list(I, it)))
_consuming("nth", lambda I, itp, n: [it_next(I, itp) for _ in range(conc(I, n) + 1)][-1])


def _for_each(I, it, f):
    for x in iter_to_list(I, it): I.call_closure(f, tup(x))
    return UNIT


_consuming("for_each", _for_each)


def _fold(I, it, init, f):
    acc = init
    for x in iter_to_list(I, it): acc = I.call_closure(f, tup(acc, x))
    return acc


_consuming("fold", _fold)


def _position(I, itp, f):
    k = 0
    while True:
        r = it_next(I, itp)
        if r.idx == 0: return r
        if I.W.branch(I.call_closure(f, tup(r.f[0]))): return some(k)
        k += 1


_consuming("position", _position)


def _rposition(I, itp, f):
    """last index whose element satisfies f (ExactSizeIterator + DoubleEndedIterator): scans from the back"""
    it = I.deref(itp)
    items = iter_to_list(I, it if type(it) is not Ptr else itp)
    for k in range(len(items) - 1, -1, -1):
        if I.W.branch(I.call_closure(f, tup(items[k]))): return some(k)
    return none()


_consuming("rposition", _rposition)


def _rfind(I, itp, f):
    while True:
        r = it_next_back(I, itp)
        if r.idx == 0: return r
        if I.W.branch(I.call_closure(f, tup(Ptr(Cell(r), (0,))))): return r


_consuming("rfind", _rfind)


def _minmax(which):
    def g(I, it):
        l = iter_to_list(I, it)
        if not l: return none()
        best = l[0]
        for x in l[1:]:
            a, b = I.deref(x) if type(unwrap_ptr(x)) is Ptr else x, I.deref(best) if type(unwrap_ptr(best)) is Ptr else best
            lt = I.binop("Lt", a, b, "usize")
            if I.W.branch(lt if which == "min" else I.binop("Ge", a, b, "usize")): best = x
        return some(best)
    return g


_consuming("min", _minmax("min"))
_consuming("max", _minmax("max"))
_consuming("sum", lambda I, it: (lambda l: __import__("functools").reduce(lambda a, b: I.binop("Add", a, (I.deref(b) if type(unwrap_ptr(b)) is Ptr else b), "usize"), l, 0))(iter_to_list(I, it)))


@summary("Peekable::peek", "Peekable::peek_mut")
def _(I, itp):
    it = I.deref(itp)
    if it.f[1].idx == 0:
        it.f[1] = some(it_next(I, Ptr(Cell(it), (0,))))
    inner = it.f[1].f[0]
    if inner.idx == 0: return none()
    return some(Ptr(Cell(inner), (0,)))


@summary("<Range as Iterator>::next", "core::iter::range::<impl Iterator for Range>::next", "<impl Iterator for Range>::next")
def _(I, itp): return it_next(I, itp)
@summary("<RangeInclusive as Iterator>::next", "core::iter::range::<impl Iterator for RangeInclusive>::next")
def _(I, itp):
    it = I.deref(itp)
    raise Unsupported("RangeInclusive iteration")


# ------------------------------------------------------------------ Option / Result / Try
@summary("<Result as Try>::branch")
def _(I, r):
    if r.idx == 0: return Enum("ControlFlow", "Continue", 0, [r.f[0]])
    return Enum("ControlFlow", "Break", 1, [err(r.f[0])])
@summary("<Option as Try>::branch")
def _(I, r):
    if r.idx == 1: return Enum("ControlFlow", "Continue", 0, [r.f[0]])
    return Enum("ControlFlow", "Break", 1, [none()])
@summary("<Result as FromResidual>::from_residual")
def _(I, r): return err(r.f[0])
@summary("<Option as FromResidual>::from_residual")
def _(I, r): return none()
@summary("Option::is_some_and")
def _(I, o, f):
    if o.idx == 0: return False
    return I.call_closure(f, tup(o.f[0]))
@summary("Option::is_none_or")
def _(I, o, f):
    if o.idx == 0: return True
    return I.call_closure(f, tup(o.f[0]))
@summary("Option::map")
def _(I, o, f):
    if o.idx == 0: return none()
    return some(I.call_closure(f, tup(o.f[0])))
@summary("Option::and_then")
def _(I, o, f):
    if o.idx == 0: return none()
    return I.call_closure(f, tup(o.f[0]))
@summary("Option::map_or")
def _(I, o, d, f):
    if o.idx == 0: return d
    return I.call_closure(f, tup(o.f[0]))
@summary("Option::map_or_else")
def _(I, o, d, f):
    if o.idx == 0: return I.call_closure(d, UNIT if False else Agg([], "tuple"))
    return I.call_closure(f, tup(o.f[0]))
@summary("Option::unwrap_or")
def _(I, o, d): return d if o.idx == 0 else o.f[0]
@summary("Option::unwrap_or_else")
def _(I, o, f): return I.call_closure(f, Agg([], "tuple")) if o.idx == 0 else o.f[0]
@summary("Option::unwrap_or_default")
def _(I, o):
    if o.idx == 0:
        m = re.search(r"Option::<(.+)>::unwrap_or_default$", getattr(I, "cur_callee", "") or "")
        t = m.group(1) if m else "?"
        if t in ("String", "alloc::string::String", "std::string::String"): return VecObj([], "String")
        if t.startswith(("Vec<", "alloc::vec::Vec<", "std::vec::Vec<")): return VecObj([])
        if t in INT_W: return 0
        if t == "bool": return False
        raise Unsupported("unwrap_or_default of " + t)
    return o.f[0]
@summary("Option::expect")
def _(I, o, msg):
    if o.idx == 0: raise Panic("expect failed: " + bytes(x for x in msg.items() if isinstance(x, int)).decode(errors="replace"), "expect")
    return o.f[0]
@summary("Option::unwrap")
def _(I, o):
    if o.idx == 0: raise Panic("called `Option::unwrap()` on a `None` value", "unwrap")
    return o.f[0]
@summary("Result::unwrap")
def _(I, o):
    if o.idx == 1: raise Panic("called `Result::unwrap()` on an `Err` value", "unwrap")
    return o.f[0]
@summary("Result::expect")
def _(I, o, msg):
    if o.idx == 1: raise Panic("Result::expect on Err", "expect")
    return o.f[0]
@summary("Option::is_some", "Result::is_err")
def _(I, o): return I.deref(o).idx == 1
@summary("Option::is_none", "Result::is_ok")
def _(I, o): return I.deref(o).idx == 0
@summary("Option::as_ref", "Option::as_mut")
def _(I, p):
    o = I.deref(p)
    if o.idx == 0: return none()
    u = unwrap_ptr(p)
    return some(Ptr(u.cell, u.path + (0,)))
@summary("Option::as_deref")
def _(I, p):
    o = I.deref(p)
    if o.idx == 0: return none()
    v = o.f[0]
    if type(v) is VecObj: return some(SliceRef(v, 0, len(v.f), v.ty == "String"))
    return some(v)
@summary("Option::take")
def _(I, p):
    u = unwrap_ptr(p); o = I.read(u.cell, u.path)
    I.write(u.cell, u.path, none())
    return o
@summary("Option::replace")
def _(I, p, v):
    u = unwrap_ptr(p); o = I.read(u.cell, u.path)
    I.write(u.cell, u.path, some(v))
    return o
@summary("Option::ok_or")
def _(I, o, e): return ok(o.f[0]) if o.idx == 1 else err(e)
@summary("Option::or")
def _(I, o, b): return o if o.idx == 1 else b
@summary("Option::or_else")
def _(I, o, f): return o if o.idx == 1 else I.call_closure(f, Agg([], "tuple"))
@summary("Option::cloned", "Option::copied")
def _(I, o):
    if o.idx == 0: return o
    return some(I.clone_generic(I.deref(o.f[0])))
@summary("Option::filter")
def _(I, o, f):
    if o.idx == 0: return o
    return o if I.W.branch(I.call_closure(f, tup(Ptr(Cell(o), (0,))))) else none()
@summary("Option::get_or_insert_with")
def _(I, p, f):
    u = unwrap_ptr(p); o = I.read(u.cell, u.path)
    if o.idx == 0:
        I.write(u.cell, u.path, some(I.call_closure(f, Agg([], "tuple"))))
    return Ptr(u.cell, u.path + (0,))
@summary("Result::map")
def _(I, r, f):
    if r.idx == 1: return r
    return ok(I.call_closure(f, tup(r.f[0])))
@summary("Result::map_err")
def _(I, r, f):
    if r.idx == 0: return r
    return err(I.call_closure(f, tup(r.f[0])))
@summary("Result::and_then")
def _(I, r, f):
    if r.idx == 1: return r
    return I.call_closure(f, tup(r.f[0]))
@summary("Result::or_else")
def _(I, r, f):
    if r.idx == 0: return r
    return I.call_closure(f, tup(r.f[0]))
@summary("Result::ok")
def _(I, r): return some(r.f[0]) if r.idx == 0 else none()
@summary("Result::err")
def _(I, r): return some(r.f[0]) if r.idx == 1 else none()
@summary("Result::unwrap_or")
def _(I, r, d): return r.f[0] if r.idx == 0 else d
@summary("Result::is_ok_and")
def _(I, r, f): return I.call_closure(f, tup(r.f[0])) if r.idx == 0 else False
@summary("<Option as PartialEq>::eq", "<Result as PartialEq>::eq")
def _(I, a, b): return I.eq_generic(I.deref(a), I.deref(b))
@summary("<Option as Clone>::clone", "<Result as Clone>::clone")
def _(I, p): return I.clone_generic(I.deref(p))
@summary("<Option as Default>::default")
def _(I): return none()


# ------------------------------------------------------------------ Box / Rc / mem / ptr
@summary("Box::new", "Box::pin")
def _(I, v): return boxed(v)
@summary("Box::new_uninit")
def _(I): return boxed(Agg([UNIT, Agg([Agg([None], "MaybeDangling")], "ManuallyDrop")], "MaybeUninit"))
@summary("Box::assume_init")
def _(I, b):
    mu = I.deref(b)
    return boxed(mu.f[1].f[0].f[0])
@summary("<Box as Drop>::drop", "core::mem::drop", "mem::drop", "drop", "core::mem::forget", "core::ptr::drop_in_place", "drop_in_place")
def _(I, *a): return UNIT
@summary("<Box as Deref>::deref", "<Box as DerefMut>::deref_mut", "<Box as AsRef>::as_ref", "<Box as AsMut>::as_mut",
         "<Box as Borrow>::borrow")
def _(I, p): return unwrap_ptr(I.deref(p))
@summary("<Box as Clone>::clone")
def _(I, p): return boxed(I.clone_generic(I.deref(I.deref(p))))
@summary("Box::leak", "Box::into_raw")
def _(I, b): return unwrap_ptr(b)
@summary("Rc::new", "Arc::new")
def _(I, v): return Agg([Ptr(Cell(v))], "Rc")
@summary("<Rc as Clone>::clone", "<Arc as Clone>::clone", "Rc::clone", "Arc::clone")
def _(I, p): return Agg([I.deref(p).f[0]], "Rc")
@summary("<Rc as Deref>::deref", "<Arc as Deref>::deref", "<Rc as AsRef>::as_ref", "Rc::as_ref")
def _(I, p): return I.deref(p).f[0]
@summary("Rc::ptr_eq", "Arc::ptr_eq")
def _(I, a, b): return ptr_eq(I.deref(a).f[0], I.deref(b).f[0])
@summary("core::ptr::eq", "ptr::eq", "std::ptr::eq")
def _(I, a, b): return ptr_eq(a, b)
@summary("core::mem::replace", "mem::replace", "std::mem::replace")
def _(I, p, v):
    u = unwrap_ptr(p); o = I.read(u.cell, u.path); I.write(u.cell, u.path, v); return o
@summary("core::mem::swap", "mem::swap", "std::mem::swap")
def _(I, p, q):
    u, w = unwrap_ptr(p), unwrap_ptr(q)
    a, b = I.read(u.cell, u.path), I.read(w.cell, w.path)
    I.write(u.cell, u.path, b); I.write(w.cell, w.path, a); return UNIT
@summary("core::mem::take", "mem::take", "std::mem::take")
def _(I, p):
    u = unwrap_ptr(p); o = I.read(u.cell, u.path)
    if type(o) is VecObj: I.write(u.cell, u.path, VecObj([], o.ty))
    elif type(o) is Enum and o.ty == "Option": I.write(u.cell, u.path, none())
    elif isinstance(o, bool): I.write(u.cell, u.path, False)
    elif isinstance(o, int): I.write(u.cell, u.path, 0)
    else: raise Unsupported(f"mem::take of {o!r}")
    return o
@summary("core::intrinsics::unreachable", "core::hint::unreachable_unchecked", "unreachable_unchecked")
def _(I): raise Panic("unreachable_unchecked", "unreachable")
@summary("core::hint::must_use", "must_use", "core::hint::black_box", "core::convert::identity", "identity",
         "<T as Into>::into", "<T as From>::from", "<_ as Into>::into")
def _(I, v): return v
@summary("core::intrinsics::cold_path", "cold_path", "core::hint::assert_unchecked", "assert_unchecked")
def _(I, *a): return UNIT


# ------------------------------------------------------------------ integers / ordering
def _minmax(ismin, signed=False):
    def f(I, a, b):
        if is_sym(a) or is_sym(b):
            w = a.size() if is_sym(a) else b.size()
            if not is_sym(a): a = z3.BitVecVal(a, w)
            if not is_sym(b): b = z3.BitVecVal(b, w)
            c = (a <= b) if signed else z3.ULE(a, b)
            return z3.If(c, a, b) if ismin else z3.If(c, b, a)
        return min(a, b) if ismin else max(a, b)
    return f


for _t in ("usize", "u8", "u32", "u64", "char", "u16"):
    S[f"<{_t} as Ord>::min"] = _minmax(True)
    S[f"<{_t} as Ord>::max"] = _minmax(False)
S["core::cmp::min"] = S["cmp::min"] = S["min"] = S["std::cmp::min"] = _minmax(True)
S["core::cmp::max"] = S["cmp::max"] = S["max"] = S["std::cmp::max"] = _minmax(False)


def _int_cmp(ty):
    def f(I, a, b): return I.binop("Cmp", I.deref(a), I.deref(b), ty)
    return f


def _int_pcmp(ty):
    def f(I, a, b): return some(I.binop("Cmp", I.deref(a), I.deref(b), ty))
    return f


for _t in ("usize", "u8", "u32", "u64", "char", "i32", "isize", "u16", "i64"):
    S[f"<{_t} as Ord>::cmp"] = _int_cmp(_t)
    S[f"<{_t} as PartialOrd>::partial_cmp"] = _int_pcmp(_t)
    S[f"<{_t} as PartialEq>::eq"] = (lambda t: lambda I, a, b: I.binop("Eq", I.deref(a), I.deref(b), t))(_t)
    S[f"<{_t} as PartialEq>::ne"] = (lambda t: lambda I, a, b: I.binop("Ne", I.deref(a), I.deref(b), t))(_t)
    S[f"<{_t} as Clone>::clone"] = lambda I, a: I.deref(a)
    S[f"<{_t} as Default>::default"] = lambda I: 0
    for _o in ("lt", "le", "gt", "ge"):
        S[f"<{_t} as PartialOrd>::{_o}"] = (lambda t, o: lambda I, a, b: I.binop(o.capitalize(), I.deref(a), I.deref(b), t))(_t, _o)
S["<bool as Clone>::clone"] = lambda I, a: I.deref(a)
S["<bool as Default>::default"] = lambda I: False
S["<bool as PartialEq>::eq"] = lambda I, a, b: I.binop("Eq", I.deref(a), I.deref(b), "bool")


@summary("Ordering::then", "core::cmp::Ordering::then")
def _(I, a, b): return b if a.var == "Equal" else a
@summary("Ordering::then_with")
def _(I, a, f): return I.call_closure(f, Agg([], "tuple")) if a.var == "Equal" else a
@summary("Ordering::is_eq")
def _(I, a): return a.var == "Equal"
@summary("Ordering::reverse")
def _(I, a): return Enum("Ordering", *{"Less": ("Greater", 2), "Equal": ("Equal", 1), "Greater": ("Less", 0)}[a.var])
@summary("<Ordering as PartialEq>::eq")
def _(I, a, b): return I.deref(a).var == I.deref(b).var


def _checked(op):
    def f(I, a, b, ty="usize"):
        r = I.binop(op + "WithOverflow", a, b, ty)
        if I.W.branch(r.f[1]): return none()
        return some(r.f[0])
    return f


for _t in ("usize", "u32", "u8", "u64", "i32", "isize"):
    for _o in ("add", "sub", "mul"):
        S[f"core::num::<impl {_t}>::checked_{_o}"] = (lambda t, o: lambda I, a, b: _checked(o.capitalize())(I, a, b, t))(_t, _o)
        S[f"core::num::<impl {_t}>::wrapping_{_o}"] = (lambda t, o: lambda I, a, b: I.binop(o.capitalize(), a, b, t))(_t, _o)
    S[f"core::num::<impl {_t}>::saturating_sub"] = (lambda t: lambda I, a, b: _sat_sub(I, a, b, t))(_t)


def _sat_sub(I, a, b, t):
    r = I.binop("SubWithOverflow", a, b, t)
    if I.W.branch(r.f[1]): return 0
    return r.f[0]


@summary("NonZero::get", "core::num::NonZero::get")
def _(I, v): return v.f[0] if type(v) is Agg else v
@summary("NonZero::new")
def _(I, v):
    if I.W.branch(I.binop("Eq", v, 0, "usize")): return none()
    return some(Agg([v], "NonZero"))


# ------------------------------------------------------------------ atomics (statics are named by their type)
@summary("std::sync::atomic::Atomic::new", "Atomic::new", "AtomicUsize::new", "AtomicBool::new", "AtomicU32::new", "AtomicU64::new", "core::sync::atomic::Atomic::new", "Cell::new", "core::cell::Cell::new")
def _(I, v): return Agg([v], "Atomic")
def _atomic_place(I, p):
    """a non-static atomic / Cell: a one-field aggregate living where the pointer points (single-threaded execution)"""
    u = unwrap_ptr(p)
    if type(u) is Ptr:
        try: v = I.read(u.cell, u.path)
        except Exception: return None
        if type(v) is Agg and v.ty == "Atomic": return v
    return None
@summary("std::sync::atomic::Atomic::load", "Atomic::load", "AtomicUsize::load", "AtomicBool::load", "core::sync::atomic::Atomic::load", "AtomicU32::load", "AtomicU64::load")
def _(I, p, order):
    a = _atomic_place(I, p)
    if a is not None: return a.f[0]
    u = unwrap_ptr(p)
    tag = u.cell.v
    if isinstance(tag, tuple) and tag[0] == "static":
        key = tag[1]
        if key in I.W.globals: return I.W.globals[key]
        if "usize" in key: return I.W.globals.get("CALL_LIMIT", 0)
        if "bool" in key: return I.W.globals.get("ERROR_DETAIL", False)
    raise Unsupported(f"atomic load of {tag!r}")
@summary("Cell::get", "core::cell::Cell::get")
def _(I, p):
    a = _atomic_place(I, p)
    if a is None: raise Unsupported("Cell::get")
    return clone_val(a.f[0])
@summary("Cell::set", "core::cell::Cell::set")
def _(I, p, v):
    a = _atomic_place(I, p)
    if a is None: raise Unsupported("Cell::set")
    a.f[0] = v; return UNIT
@summary("std::sync::atomic::Atomic::store", "core::sync::atomic::Atomic::store", "Atomic::store", "AtomicUsize::store", "AtomicBool::store", "AtomicU32::store", "AtomicU64::store")
def _(I, p, v, order):
    a = _atomic_place(I, p)
    if a is not None:
        a.f[0] = v; return UNIT
    u = unwrap_ptr(p); tag = u.cell.v
    if isinstance(tag, tuple) and tag[0] == "static":
        I.W.globals["CALL_LIMIT" if "usize" in tag[1] else "ERROR_DETAIL"] = v
        return UNIT
    raise Unsupported("atomic store")


# ------------------------------------------------------------------ generic trait fallbacks (receiver type unknown to the index)
@summary("<_ as Clone>::clone", "<T as Clone>::clone", "<R as Clone>::clone")
def _(I, p): return I.clone_generic(I.deref(p))
@summary("<_ as PartialEq>::eq", "<T as PartialEq>::eq", "<R as PartialEq>::eq")
def _(I, a, b): return I.eq_generic(a, b)
@summary("<_ as PartialEq>::ne", "<R as PartialEq>::ne")
def _(I, a, b):
    r = I.eq_generic(a, b)
    return z3.Not(r) if is_sym(r) else not r
@summary("<_ as Ord>::cmp", "<R as Ord>::cmp")
def _(I, a, b): return I.ordering(I.cmp_generic(a, b))
@summary("<_ as PartialOrd>::partial_cmp", "<R as PartialOrd>::partial_cmp")
def _(I, a, b): return some(I.ordering(I.cmp_generic(a, b)))
@summary("<_ as PartialOrd>::lt")
def _(I, a, b): return I.cmp_generic(a, b) < 0
@summary("<_ as PartialOrd>::le")
def _(I, a, b): return I.cmp_generic(a, b) <= 0
@summary("<_ as PartialOrd>::gt")
def _(I, a, b): return I.cmp_generic(a, b) > 0
@summary("<_ as PartialOrd>::ge")
def _(I, a, b): return I.cmp_generic(a, b) >= 0


# ------------------------------------------------------------------ memchr (by documented contract; native replay uses the real crate)
def _byte_eq(x, b):
    if is_sym(x) or is_sym(b): return x == b
    return x == b


@summary("memchr::memmem::find", "memmem::find")
def _(I, hay, needle):
    nd = needle.items(); h = hay.items()
    if not nd: return some(0)
    for i in range(0, len(h) - len(nd) + 1):
        c = True
        for k, b in enumerate(nd): c = _and(c, _byte_eq(h[i + k], b))
        if I.W.branch(c): return some(i)
    return none()


def _memchr_iter(n):
    def f(I, *a):
        return Agg([a[n], list(a[:n]), 0], "MemchrIter")
    return f


S["memchr2_iter"] = S["memchr::memchr2_iter"] = _memchr_iter(2)
S["memchr3_iter"] = S["memchr::memchr3_iter"] = _memchr_iter(3)
S["memchr_iter"] = S["memchr::memchr_iter"] = _memchr_iter(1)


def _memchr_next(I, itp):
    it = I.deref(itp)
    hay, needles, pos = it.f
    h = hay.items()
    while pos < len(h):
        c = False
        for b in needles: c = _or(c, _byte_eq(h[pos], b))
        pos += 1
        if I.W.branch(c):
            it.f[2] = pos
            return some(pos - 1)
    it.f[2] = pos
    return none()


for _t in ("Memchr", "Memchr2", "Memchr3", "memchr::Memchr2", "memchr::Memchr3"):
    S[f"<{_t} as Iterator>::next"] = _memchr_next
    S[f"<{_t} as IntoIterator>::into_iter"] = lambda I, it: it


# ------------------------------------------------------------------ BTreeMap with possibly symbolic scalar keys (association list)
class _AL: pass


@summary("BTreeMap::new", "<BTreeMap as Default>::default")
def _(I): return Agg([[]], "BTreeMap")
@summary("BTreeMap::insert")
def _(I, mp, k, v):
    m = I.deref(mp)
    for e in m.f[0]:
        if I.W.branch(I.eq_generic(e[0], k)):
            old = e[1]; e[1] = v; return some(old)
    m.f[0].append([k, v]); return none()
@summary("BTreeMap::get")
def _(I, mp, kp):
    m = I.deref(mp); k = I.deref(kp)
    for i, e in enumerate(m.f[0]):
        if I.W.branch(I.eq_generic(e[0], k)):
            return some(Ptr(Cell(Agg(e, "entry")), (1,)))
    return none()
@summary("Option::copied")
def _(I, o):
    if o.idx == 0: return o
    return some(clone_val(I.deref(o.f[0])))
@summary("core::mem::ManuallyDrop::new", "ManuallyDrop::new")
def _(I, v): return Agg([v], "ManuallyDrop")


# ------------------------------------------------------------------ panics and their message plumbing (messages are not built)
def _fmt_placeholder(I, *a): return Agg([], "FmtArg")


for _n in ("new_display", "new_debug", "new_lower_hex", "new_upper_hex"):
    S["core::fmt::rt::Argument::" + _n] = S["fmt::rt::Argument::" + _n] = S["Argument::" + _n] = _fmt_placeholder
for _n in ("Arguments::new", "Arguments::from_str", "Arguments::new_const", "Arguments::new_v1", "core::fmt::Arguments::new", "core::fmt::Arguments::from_str",
           "core::fmt::Arguments::new_const", "core::fmt::Arguments::new_v1", "fmt::Arguments::new", "fmt::Arguments::from_str"):
    S[_n] = _fmt_placeholder


def _panic(kind):
    def f(I, *a):
        msg = ""
        for x in a:
            if type(x) is SliceRef and x.is_str and all(isinstance(b, int) for b in x.items()):
                msg = bytes(x.items()).decode(errors="replace"); break
            if type(x) is Agg and x.ty in ("FmtArguments", "FmtArgumentsStr"):
                try:
                    from .summaries_fmt import format_bytes
                    bs = format_bytes(I, x)
                    msg = bytes(b if isinstance(b, int) else 63 for b in bs).decode(errors="replace"); break
                except (Unsupported, Panic):
                    msg = "<message not rendered>"; break
        raise Panic(f"{kind}: {msg}" if msg else kind, kind)
    return f


for _n, _k in (("panic_fmt", "panic"), ("core::panicking::panic_fmt", "panic"), ("core::panicking::panic", "panic"), ("panic", "panic"),
               ("core::panicking::panic_display", "panic"), ("panic_display", "panic"), ("core::panicking::panic_explicit", "panic"), ("panic_explicit", "panic"),
               ("core::option::expect_failed", "expect"), ("expect_failed", "expect"), ("core::result::unwrap_failed", "unwrap"), ("unwrap_failed", "unwrap"),
               ("core::option::unwrap_failed", "unwrap"), ("core::panicking::panic_nounwind", "panic"), ("std::rt::begin_panic", "panic"), ("begin_panic", "panic"),
               ("core::panicking::unreachable_display", "unreachable"), ("unreachable_display", "unreachable"), ("core::panicking::panic_const::panic_const_div_by_zero", "panic")):
    S[_n] = _panic(_k)


@summary("alloc::boxed::box_assume_init_into_vec_unsafe", "box_assume_init_into_vec_unsafe", "boxed::box_assume_init_into_vec_unsafe")
def _(I, b):
    mu = I.deref(b)
    arr = mu.f[1].f[0].f[0] if type(mu) is Agg and mu.ty == "MaybeUninit" else mu
    return VecObj(list(arr.f))


@summary("core::slice::<impl []>::partition_point", "<impl []>::partition_point")
def _(I, s, pred):
    """index of the first element for which pred is false (the slice is assumed partitioned, as the contract requires)"""
    items = s.items()
    for i in range(len(items)):
        if not I.W.branch(I.call_closure(pred, tup(Ptr(Cell(s.obj), (s.start + i,))))): return i
    return len(items)


@summary("core::slice::<impl []>::binary_search", "<impl []>::binary_search")
def _(I, s, xp):
    """sorted slice: Ok(index of an equal element) or Err(insertion point); linear, forking on symbolic comparisons"""
    x = I.deref(xp); items = s.items()
    for i, y in enumerate(items):
        c = I.cmp_generic(y, x)
        if c == 0: return ok(i)
        if c > 0: return err(i)
    return err(len(items))


@summary("core::slice::<impl []>::binary_search_by", "<impl []>::binary_search_by")
def _(I, s, f):
    """bisection exactly as core does it (so that an inconsistent comparator misbehaves the same way)"""
    items = s.items(); size = len(items)
    if size == 0: return err(0)
    base = 0
    while size > 1:
        half = size // 2; mid = base + half
        c = I.call_closure(f, tup(Ptr(Cell(s.obj), (s.start + mid,))))
        if c.var != "Greater": base = mid
        size -= half
    c = I.call_closure(f, tup(Ptr(Cell(s.obj), (s.start + base,))))
    if c.var == "Equal": return ok(base)
    return err(base + (1 if c.var == "Less" else 0))


def _try_fold(I, itp, init, f):
    acc = init
    while True:
        r = it_next(I, itp)
        if r.idx == 0:
            # Try::from_output(acc): the accumulator type tells which Try type is in use; Result/Option are the ones used here
            return I.user_try_output(acc) if hasattr(I, "user_try_output") else ok(acc)
        step = I.call_closure(f, tup(acc, r.f[0]))
        if type(step) is Enum and step.ty == "Result":
            if step.idx == 1: return step
            acc = step.f[0]
        elif type(step) is Enum and step.ty == "Option":
            if step.idx == 0: return step
            acc = step.f[0]
        else:
            raise Unsupported(f"try_fold over {step!r}")


_consuming("try_fold", _try_fold)


def _iter_cmp(I, a, b):
    """Iterator::cmp: lexicographic"""
    pa, pb = Ptr(Cell(a)), Ptr(Cell(b))
    while True:
        x = it_next(I, pa); y = it_next(I, pb)
        if x.idx == 0 and y.idx == 0: return I.ordering(0)
        if x.idx == 0: return I.ordering(-1)
        if y.idx == 0: return I.ordering(1)
        c = I.cmp_generic(x.f[0], y.f[0], "u8")
        if c: return I.ordering(c)


_consuming("cmp", _iter_cmp)
_consuming("eq", lambda I, a, b: _iter_cmp(I, a, b).var == "Equal")


@summary("RangeInclusive::new", "core::ops::RangeInclusive::new", "std::ops::RangeInclusive::new")
def _(I, a, b): return Agg([a, b, False], "RangeInclusive")
@summary("RangeInclusive::contains", "core::ops::RangeInclusive::contains", "std::ops::RangeInclusive::contains")
def _(I, rp, xp):
    r = I.deref(rp); x = I.deref(xp)
    return _and(I.binop("Le", r.f[0], x, "usize"), I.binop("Le", x, r.f[1], "usize"))
@summary("Range::contains", "core::ops::Range::contains", "std::ops::Range::contains")
def _(I, rp, xp):
    r = I.deref(rp); x = I.deref(xp)
    return _and(I.binop("Le", r.f[0], x, "usize"), I.binop("Lt", x, r.f[1], "usize"))


@summary("Option::ok_or_else")
def _(I, o, f): return ok(o.f[0]) if o.idx == 1 else err(I.call_closure(f, Agg([], "tuple")))
@summary("Option::zip")
def _(I, a, b): return some(tup(a.f[0], b.f[0])) if a.idx == 1 and b.idx == 1 else none()
@summary("Option::unwrap_unchecked")
def _(I, o): return o.f[0]
@summary("Result::unwrap_or_else")
def _(I, r, f): return r.f[0] if r.idx == 0 else I.call_closure(f, tup(r.f[0]))
@summary("Result::unwrap_or_default")
def _(I, r):
    if r.idx == 0: return r.f[0]
    raise Unsupported("unwrap_or_default on Err")


def _sort_by_key(I, s, f):
    items = s.items()
    keyed = [(I.call_closure(f, tup(Ptr(Cell(s.obj), (s.start + i,)))), x) for i, x in enumerate(items)]
    out = []
    for k, x in keyed:
        j = len(out)
        while j > 0 and I.cmp_generic(k, out[j - 1][0]) < 0: j -= 1
        out.insert(j, (k, x))
    s.obj.f[s.start:s.start + s.len] = [x for _, x in out]
    return UNIT


for _p in ("alloc::slice::<impl []>::", "slice::<impl []>::", "std::slice::<impl []>::", "core::slice::<impl []>::", "<impl []>::"):
    S[_p + "sort_by_key"] = _sort_by_key
    S[_p + "sort_unstable_by_key"] = _sort_by_key
    S[_p + "sort"] = S["alloc::slice::<impl []>::sort"]
    S[_p + "is_empty"] = S["core::slice::<impl []>::is_empty"]
    S[_p + "len"] = S["core::slice::<impl []>::len"]
    S[_p + "iter"] = S["core::slice::<impl []>::iter"]
    S[_p + "contains"] = S["core::slice::<impl []>::contains"]
    S[_p + "join"] = lambda I, s, sep: _join(I, s, sep)


@summary("Vec::append")
def _(I, p, other):
    o = vec_of(I, other)
    vec_of(I, p).f.extend(o.f); o.f = []
    return UNIT


def _join(I, s, sep):
    from .summaries_str import as_str
    out = []; sp = list(as_str(I, sep).items())
    for i, x in enumerate(s.items()):
        if i: out += sp
        out += list(as_str(I, x).items())
    return VecObj(out, "String")


# ------------------------------------------------------------------ ucd-trie (not in the MIR): a trie is identified by the token the
# caller put into the BY_NAME table (lib/props/c16.py); membership is the compiled property function's set
@summary("TrieSetSlice::contains_char", "ucd_trie::TrieSetSlice::contains_char", "TrieSet::contains_char")
def _(I, t, c):
    tok = I.deref(t)
    for _ in range(3):
        if type(tok) is Agg and tok.ty == "TrieToken": break
        tok = I.deref(tok)
    if not (type(tok) is Agg and tok.ty == "TrieToken"): raise Unsupported("contains_char on an unknown trie")
    return I.unicode_property(tok.f[0], c, via="table")
