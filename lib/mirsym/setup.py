"""Load programs (MIR of /repo crates) for the executor."""
import os, time
from common import *
from . import dump
from .interp import Program, Explorer, World, Interp
from .summaries import S
from . import summaries_str  # registers str/char summaries
from . import summaries_fmt  # registers core::fmt summaries (after summaries_str: replaces the placeholder `format`)
from . import summaries_more  # str searching/splitting, slice helpers, more iterator consumers, integer helpers (validated by lib/stdprobe.py)

_cache = {}


def program(crates=("pest",), hooks=False, features=()):
    """crates: tuple of workspace package names whose MIR is loaded (regenerated from the working tree)"""
    key = (tuple(crates), hooks, tuple(features))
    if key in _cache: return _cache[key]
    P = Program(REPO)
    srcdirs = {"pest": "pest/src", "pest_vm": "vm/src", "pest_meta": "meta/src", "pest_generator": "generator/src",
               "pest_grammars": "grammars/src"}
    for c in crates:
        fe = [f for f in features if c in ("pest_vm", "pest_meta", "pest_generator")]
        mir = dump.dump(c, hooks=hooks, features=fe or None)
        P.load(mir, c)
        P.load_enums([os.path.join(REPO, srcdirs[c])], features)
    if "pest_vm" in crates and "pest_meta" not in crates:
        P.load_enums([os.path.join(REPO, srcdirs["pest_meta"])], features)
    _cache[key] = P
    return P


def fn_evidence(fns):
    return sorted(f"{f.crate}::{f.name.split('>::')[-1] if '<impl at' in f.name else f.name} #{f.hash}" for f in fns)
