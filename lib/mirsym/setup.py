"""Load programs (MIR of /repo crates) for the executor."""
import os, time
from common import *
from . import dump
from .interp import Program, Explorer, World, Interp
from .summaries import S
from . import summaries_str  # registers str/char summaries

_cache = {}


def program(crates=("pest",), hooks=False):
    """crates: tuple of workspace package names whose MIR is loaded (regenerated from the working tree)"""
    key = (tuple(crates), hooks)
    if key in _cache: return _cache[key]
    P = Program(REPO)
    srcdirs = {"pest": "pest/src", "pest_vm": "vm/src", "pest_meta": "meta/src", "pest_generator": "generator/src",
               "pest_grammars": "grammars/src"}
    for c in crates:
        mir = dump.dump(c, hooks=hooks)
        P.load(mir, c)
        P.load_enums([os.path.join(REPO, srcdirs[c])])
    _cache[key] = P
    return P


def fn_evidence(fns):
    return sorted(f"{f.crate}::{f.name.split('>::')[-1] if '<impl at' in f.name else f.name} #{f.hash}" for f in fns)
