"""Value model of the MIR executor: concrete shape, symbolic scalars."""
import z3


class Cell:
    __slots__ = ("v",)

    def __init__(self, v=None): self.v = v


class SliceCell(Cell):
    """pseudo place produced by dereferencing a slice reference"""
    __slots__ = ()


class Ptr:
    __slots__ = ("cell", "path")

    def __init__(self, cell, path=()): self.cell, self.path = cell, path

    def __repr__(self): return f"Ptr({id(self.cell) & 0xffff:x},{self.path})"


class Agg:
    __slots__ = ("f", "ty")

    def __init__(self, f, ty="tuple"): self.f, self.ty = f, ty

    def __repr__(self): return f"{self.ty}{self.f}"


class Closure(Agg):
    __slots__ = ("loc",)

    def __init__(self, f, loc):
        self.f, self.ty, self.loc = f, "closure", loc

    def __repr__(self): return f"closure@{self.loc}{self.f}"


class Enum:
    __slots__ = ("ty", "var", "idx", "f")

    def __init__(self, ty, var, idx, f=()):
        self.ty, self.var, self.idx, self.f = ty, var, idx, list(f)

    def __repr__(self): return f"{self.ty}::{self.var}{self.f if self.f else ''}"


class VecObj:
    """heap buffer of Vec<T> / String / a static array"""
    __slots__ = ("f", "ty")

    def __init__(self, f=None, ty="Vec"): self.f, self.ty = (f if f is not None else []), ty

    def __repr__(self): return f"{self.ty}{self.f}"


class SliceRef:
    """&[T] / &str / &mut [T]: view (start,len concrete) into an object with .f"""
    __slots__ = ("obj", "start", "len", "is_str")

    def __init__(self, obj, start, ln, is_str=False): self.obj, self.start, self.len, self.is_str = obj, start, ln, is_str

    def items(self): return self.obj.f[self.start:self.start + self.len]

    def __repr__(self):
        return f"{'str' if self.is_str else 'slice'}[{self.start}+{self.len}]"


class FnItem:
    __slots__ = ("path", "key")

    def __init__(self, path, key): self.path, self.key = path, key

    def __repr__(self): return f"fn {self.key}"


class PyClosure:
    """host closure: fn(interp, *args) -> value"""
    __slots__ = ("fn", "name")

    def __init__(self, fn, name="host"): self.fn, self.name = fn, name


class MapObj:
    """HashMap / BTreeMap with concrete keys (python dict; BTreeMap iteration sorts keys)"""
    __slots__ = ("d", "ty")

    def __init__(self, ty="HashMap"): self.d, self.ty = {}, ty


UNIT = Agg((), "unit")


def some(v): return Enum("Option", "Some", 1, [v])
def none(): return Enum("Option", "None", 0)
def ok(v): return Enum("Result", "Ok", 0, [v])
def err(v): return Enum("Result", "Err", 1, [v])
def mkbox(ptr): return Agg([Agg([Agg([ptr], "NonNull")], "Unique"), UNIT], "Box")
def boxed(v): return mkbox(Ptr(Cell(v)))


def is_sym(v): return isinstance(v, z3.ExprRef)


def clone_val(v):
    """value copy: aggregates are copied, heap objects / pointers are shared"""
    t = type(v)
    if t is Agg:
        if v is UNIT: return v
        return Agg([clone_val(x) for x in v.f], v.ty)
    if t is Enum:
        return Enum(v.ty, v.var, v.idx, [clone_val(x) for x in v.f]) if v.f else Enum(v.ty, v.var, v.idx)
    if t is Closure:
        return Closure([clone_val(x) for x in v.f], v.loc)
    return v


def unwrap_ptr(v):
    """Box / Unique / NonNull / Rc wrappers -> the Ptr inside"""
    while type(v) is Agg and v.ty in ("Box", "Unique", "NonNull", "Rc", "Arc") and v.f:
        v = v.f[0]
    return v


class Panic(Exception):
    """the executed code panics on this path"""

    def __init__(self, msg, kind="panic"):
        Exception.__init__(self, msg); self.kind = kind


class Unsupported(Exception):
    """the encoder cannot execute this (unknown callee / MIR form): the run is inconclusive"""


class Infeasible(Exception):
    pass


class StepLimit(Exception):
    pass
