"""More std summaries (str searching / splitting, slice helpers, iterator consumers, integer helpers).  Every entry here is
exercised by lib/stdprobe.py, which compares the executor with the natively compiled function on concrete inputs.
All string searches work on symbolic text: they walk the char boundaries and fork on each comparison."""
import z3
from .values import *
from .interp import _and, _or
from .summaries import S, summary, tup, conc, mk_slice_iter, iter_to_list, it_next, it_next_back, _consuming, _adapt, ITER_TYPES
from .summaries_str import as_str, decode_front, decode_back, encode_char, sstr, _pat_pred, bytes_eq, P as STRP


# ------------------------------------------------------------------ patterns
def _is_cont(I, b):
    return I.W.branch(z3.And(z3.UGE(b, 0x80), z3.ULT(b, 0xC0))) if is_sym(b) else 0x80 <= b < 0xC0


def _boundaries(I, s):
    """byte offsets (relative to s) of the char boundaries of s, including s.len"""
    out = [i for i in range(s.len) if not _is_cont(I, s.obj.f[s.start + i])]
    return out + [s.len]


def _matcher(I, pat):
    """pattern -> f(s, i) = length of the match of pat at byte offset i of s (a char boundary), or None (forks)"""
    u = unwrap_ptr(pat)
    if type(u) is Ptr:
        v = I.deref(u)
        if type(v) is VecObj and v.ty == "String": u = SliceRef(v, 0, len(v.f), True)
        elif type(v) is SliceRef: u = v
    if type(u) is SliceRef and u.is_str:
        nd = list(u.items())
        def m(s, i):
            if i + len(nd) > s.len: return None
            c = True
            for k, b in enumerate(nd):
                h = s.obj.f[s.start + i + k]
                c = _and(c, h == b)
            return len(nd) if I.W.branch(c) else None
        return m
    pred = _pat_pred(I, pat)
    def m(s, i):
        if i >= s.len: return None
        c, n = decode_front(I, SliceRef(s.obj, s.start + i, s.len - i, True))
        return n if I.W.branch(pred(c)) else None
    return m


def _find_all(I, s, pat, overlapping=False):
    """-> [(offset, length)] of the successive non-overlapping matches, left to right (the documented Searcher behaviour;
    an empty str pattern matches at every boundary)"""
    m = _matcher(I, pat)
    out = []; i = 0; bnd = set(_boundaries(I, s))
    while i <= s.len:
        if i in bnd:
            n = m(s, i)
            if n is not None:
                out.append((i, n))
                if n > 0: i += n; continue
        i += 1
    return out


def _sub(s, a, b): return SliceRef(s.obj, s.start + a, b - a, True)


@sstr("find")
def _(I, s, pat):
    s = as_str(I, s); m = _matcher(I, pat)
    for i in _boundaries(I, s):
        if m(s, i) is not None: return some(i)
    return none()
@sstr("rfind")
def _(I, s, pat):
    s = as_str(I, s); m = _matcher(I, pat)
    for i in reversed(_boundaries(I, s)):
        if m(s, i) is not None: return some(i)
    return none()
@sstr("matches")
def _(I, s, pat):
    s = as_str(I, s)
    return Agg([VecObj([_sub(s, i, i + n) for i, n in _find_all(I, s, pat)]), 0], "ListIter")
@sstr("match_indices")
def _(I, s, pat):
    s = as_str(I, s)
    return Agg([VecObj([tup(i, _sub(s, i, i + n)) for i, n in _find_all(I, s, pat)]), 0], "ListIter")


def _split_pieces(I, s, pat):
    pieces = []; last = 0
    for i, n in _find_all(I, s, pat):
        pieces.append(_sub(s, last, i)); last = i + n
    pieces.append(_sub(s, last, s.len))
    return pieces


@sstr("split")
def _(I, s, pat): return Agg([VecObj(_split_pieces(I, as_str(I, s), pat)), 0], "ListIter")
@sstr("rsplit")
def _(I, s, pat): return Agg([VecObj(list(reversed(_split_pieces(I, as_str(I, s), pat)))), 0], "ListIter")
@sstr("split_terminator")
def _(I, s, pat):
    p = _split_pieces(I, as_str(I, s), pat)
    if p and p[-1].len == 0: p.pop()
    return Agg([VecObj(p), 0], "ListIter")
@sstr("splitn")
def _(I, s, n, pat):
    s = as_str(I, s); n = conc(I, n); pieces = []; last = 0
    if n == 0: return Agg([VecObj([]), 0], "ListIter")
    for i, k in _find_all(I, s, pat):
        if len(pieces) == n - 1: break
        pieces.append(_sub(s, last, i)); last = i + k
    pieces.append(_sub(s, last, s.len))
    return Agg([VecObj(pieces), 0], "ListIter")
@sstr("split_once")
def _(I, s, pat):
    s = as_str(I, s); m = _matcher(I, pat)
    for i in _boundaries(I, s):
        n = m(s, i)
        if n is not None: return some(tup(_sub(s, 0, i), _sub(s, i + n, s.len)))
    return none()
@sstr("rsplit_once")
def _(I, s, pat):
    s = as_str(I, s); m = _matcher(I, pat)
    for i in reversed(_boundaries(I, s)):
        n = m(s, i)
        if n is not None: return some(tup(_sub(s, 0, i), _sub(s, i + n, s.len)))
    return none()
@sstr("lines")
def _(I, s):
    s = as_str(I, s); out = []; last = 0
    for i in range(s.len):
        b = s.obj.f[s.start + i]
        if I.W.branch(b == 10) if is_sym(b) else b == 10:
            e = i
            if e > last:
                p = s.obj.f[s.start + e - 1]
                if I.W.branch(p == 13) if is_sym(p) else p == 13: e -= 1
            out.append(_sub(s, last, e)); last = i + 1
    if last < s.len:
        e = s.len                       # a final line without terminator keeps a trailing '\\r'? no: `lines` strips "\\r\\n" only
        out.append(_sub(s, last, e))
    return Agg([VecObj(out), 0], "ListIter")


_WS = (9, 10, 11, 12, 13, 32, 0x85, 0xA0, 0x1680, 0x2028, 0x2029, 0x202F, 0x205F, 0x3000)


def _is_ws(I, c):
    r = False
    for x in _WS: r = _or(r, I.binop("Eq", c, x, "char"))
    return _or(r, _and(I.binop("Ge", c, 0x2000, "char"), I.binop("Le", c, 0x200A, "char")))


@sstr("split_whitespace")
def _(I, s):
    s = as_str(I, s); out = []; start = None; i = 0
    while i < s.len:
        c, n = decode_front(I, _sub(s, i, s.len))
        if I.W.branch(_is_ws(I, c)):
            if start is not None: out.append(_sub(s, start, i)); start = None
        elif start is None: start = i
        i += n
    if start is not None: out.append(_sub(s, start, s.len))
    return Agg([VecObj(out), 0], "ListIter")
@sstr("split_ascii_whitespace")
def _(I, s): return S[STRP[0] + "split_whitespace"](I, s)
@sstr("repeat")
def _(I, s, n):
    s = as_str(I, s); return VecObj(list(s.items()) * conc(I, n), "String")
@sstr("ends_with")
def _(I, s, pat):
    s = as_str(I, s)
    u = unwrap_ptr(pat)
    if isinstance(pat, int) or is_sym(pat) or (type(u) is not SliceRef and type(u) is not Ptr) or (type(u) is SliceRef and not u.is_str):
        if s.len == 0: return False
        c, n = decode_back(I, s)
        return _pat_pred(I, pat)(c)
    p = as_str(I, pat)
    if p.len > s.len: return False
    return bytes_eq(I, SliceRef(s.obj, s.start + s.len - p.len, p.len), p)
@sstr("to_uppercase", "to_ascii_uppercase")
def _(I, s):
    out = []
    for b in as_str(I, s).items():
        out.append(z3.If(z3.And(z3.UGE(b, 97), z3.ULE(b, 122)), b - 32, b) if is_sym(b) else (b - 32 if 97 <= b <= 122 else b))
    return VecObj(out, "String")
@sstr("to_lowercase", "to_ascii_lowercase")
def _(I, s):
    out = []
    for b in as_str(I, s).items():
        out.append(z3.If(z3.And(z3.UGE(b, 65), z3.ULE(b, 90)), b + 32, b) if is_sym(b) else (b + 32 if 65 <= b <= 90 else b))
    return VecObj(out, "String")
# (to_uppercase / to_lowercase proper are the ASCII mapping only while the text is ASCII)
for _p in STRP:
    _asc = S[_p + "to_ascii_uppercase"]; _asl = S[_p + "to_ascii_lowercase"]
    def _full(f, nm):
        def g(I, s):
            if any(is_sym(b) or b >= 0x80 for b in as_str(I, s).items()): raise Unsupported(f"str::{nm} of non-ASCII or symbolic text")
            return f(I, s)
        return g
    S[_p + "to_uppercase"] = _full(_asc, "to_uppercase"); S[_p + "to_lowercase"] = _full(_asl, "to_lowercase")


@sstr("replace")
def _(I, s, pat, to):
    s = as_str(I, s); to_b = list(as_str(I, to).items()); out = []; last = 0
    for i, n in _find_all(I, s, pat):
        out += list(_sub(s, last, i).items()) + to_b; last = i + n
    out += list(_sub(s, last, s.len).items())
    return VecObj(out, "String")
@sstr("replacen")
def _(I, s, pat, to, cnt):
    s = as_str(I, s); to_b = list(as_str(I, to).items()); out = []; last = 0; k = conc(I, cnt)
    for i, n in _find_all(I, s, pat)[:k]:
        out += list(_sub(s, last, i).items()) + to_b; last = i + n
    out += list(_sub(s, last, s.len).items())
    return VecObj(out, "String")


@summary("String::insert")
def _(I, sp, idx, ch):
    v = I.deref(sp); i = conc(I, idx)
    if i > len(v.f) or (i < len(v.f) and _is_cont(I, v.f[i])): raise Panic("assertion failed: self.is_char_boundary(idx)", "assert")
    v.f[i:i] = encode_char(I, ch); return UNIT
@summary("String::insert_str")
def _(I, sp, idx, s2):
    v = I.deref(sp); i = conc(I, idx)
    if i > len(v.f) or (i < len(v.f) and _is_cont(I, v.f[i])): raise Panic("assertion failed: self.is_char_boundary(idx)", "assert")
    v.f[i:i] = list(as_str(I, s2).items()); return UNIT
@summary("String::remove")
def _(I, sp, idx):
    v = I.deref(sp); i = conc(I, idx)
    if i >= len(v.f) or _is_cont(I, v.f[i]): raise Panic("cannot remove a char from the end of a string", "assert")
    c, n = decode_front(I, SliceRef(v, i, len(v.f) - i, True))
    del v.f[i:i + n]; return c


# ------------------------------------------------------------------ slices
SL = ("core::slice::<impl []>::", "slice::<impl []>::", "<impl []>::", "alloc::slice::<impl []>::")


def sslice(*names):
    def deco(f):
        for n in names:
            for p in SL: S[p + n] = f
        return f
    return deco


def _sl(I, s):
    u = unwrap_ptr(s)
    if type(u) is SliceRef: return u
    if type(u) is Ptr:
        v = I.deref(u)
        if type(v) is VecObj: return SliceRef(v, 0, len(v.f))
        if type(v) is SliceRef: return v
        if type(v) is Agg and v.ty == "array": return SliceRef(v, 0, len(v.f))
    if type(u) is VecObj: return SliceRef(u, 0, len(u.f))
    raise Unsupported(f"slice of {u!r}")


def _ssub(s, a, b): return SliceRef(s.obj, s.start + a, b - a, s.is_str)


@sslice("windows")
def _(I, s, n):
    s = _sl(I, s); n = conc(I, n)
    if n == 0: raise Panic("window size must be non-zero", "panic")
    return Agg([VecObj([_ssub(s, i, i + n) for i in range(0, s.len - n + 1)]), 0], "ListIter")
@sslice("chunks")
def _(I, s, n):
    s = _sl(I, s); n = conc(I, n)
    if n == 0: raise Panic("chunk size must be non-zero", "panic")
    return Agg([VecObj([_ssub(s, i, min(i + n, s.len)) for i in range(0, s.len, n)]), 0], "ListIter")
@sslice("chunks_exact")
def _(I, s, n):
    s = _sl(I, s); n = conc(I, n)
    if n == 0: raise Panic("chunk size must be non-zero", "panic")
    return Agg([VecObj([_ssub(s, i, i + n) for i in range(0, s.len - n + 1, n)]), 0], "ListIter")
@sslice("split_first")
def _(I, s):
    s = _sl(I, s)
    return none() if s.len == 0 else some(tup(Ptr(Cell(s.obj), (s.start,)), _ssub(s, 1, s.len)))
@sslice("split_last")
def _(I, s):
    s = _sl(I, s)
    return none() if s.len == 0 else some(tup(Ptr(Cell(s.obj), (s.start + s.len - 1,)), _ssub(s, 0, s.len - 1)))
@sslice("swap")
def _(I, s, a, b):
    s = _sl(I, s); a = conc(I, a); b = conc(I, b)
    if a >= s.len or b >= s.len: raise Panic("index out of bounds", "index")
    f = s.obj.f; f[s.start + a], f[s.start + b] = f[s.start + b], f[s.start + a]; return UNIT
@sslice("reverse")
def _(I, s):
    s = _sl(I, s); f = s.obj.f; f[s.start:s.start + s.len] = f[s.start:s.start + s.len][::-1]; return UNIT
@sslice("concat")
def _(I, s):
    out = []; is_str = False
    for p in _sl(I, s).items():
        q = unwrap_ptr(p)
        if type(q) is SliceRef: out += list(q.items()); is_str = is_str or q.is_str
        else: out += list(_sl(I, q).items())
    return VecObj(out, "String" if is_str else "Vec")
@sslice("split")
def _(I, s, f):
    s = _sl(I, s); out = []; last = 0
    for i in range(s.len):
        if I.W.branch(I.call_closure(f, tup(Ptr(Cell(s.obj), (s.start + i,))))):
            out.append(_ssub(s, last, i)); last = i + 1
    out.append(_ssub(s, last, s.len))
    return Agg([VecObj(out), 0], "ListIter")
@sslice("fill")
def _(I, s, v):
    s = _sl(I, s)
    for i in range(s.len): s.obj.f[s.start + i] = clone_val(v)
    return UNIT


def _sort_with(I, s, less):
    """insertion sort driven by `less(a, b)` (forks on symbolic comparisons); stable"""
    s = _sl(I, s); items = list(s.items()); out = []
    for x in items:
        k = len(out)
        while k > 0 and I.W.branch(less(x, out[k - 1])): k -= 1
        out.insert(k, x)
    s.obj.f[s.start:s.start + s.len] = out
    return UNIT


def _ord_less(I, f):
    def less(a, b):
        r = I.call_closure(f, tup(Ptr(Cell(a)), Ptr(Cell(b))))
        return r.var == "Less" if type(r) is Enum else I.binop("Eq", r, 0xFF, "i8")
    return less


@sslice("sort_by", "sort_unstable_by")
def _(I, s, f): return _sort_with(I, s, _ord_less(I, f))


def _bsearch(I, n, cmp_at):
    """the algorithm of core::slice::binary_search_by (which of several equal elements is found is its business)"""
    if n == 0: return err(0)
    size = n; base = 0
    while size > 1:
        half = size // 2; mid = base + half
        c = cmp_at(mid)
        if c != "Greater": base = mid
        size -= half
    c = cmp_at(base)
    if c == "Equal": return ok(base)
    return err(base + (1 if c == "Less" else 0))


def _cmp3(I, a, b, ty="usize"):
    if I.W.branch(I.binop("Lt", a, b, ty)): return "Less"
    if I.W.branch(I.binop("Eq", a, b, ty)): return "Equal"
    return "Greater"


@sslice("binary_search")
def _(I, s, x):
    s = _sl(I, s); xv = I.deref(x)
    return _bsearch(I, s.len, lambda i: _cmp3(I, s.obj.f[s.start + i], xv, "u64" if not is_sym(xv) else {8: "u8", 16: "u16", 32: "u32", 64: "usize"}[xv.size()]))
@sslice("binary_search_by")
def _(I, s, f):
    s = _sl(I, s)
    def at(i):
        r = I.call_closure(f, tup(Ptr(Cell(s.obj), (s.start + i,))))
        return r.var
    return _bsearch(I, s.len, at)
@sslice("partition_point")
def _(I, s, f):
    s = _sl(I, s)
    r = _bsearch(I, s.len, lambda i: "Less" if I.W.branch(I.call_closure(f, tup(Ptr(Cell(s.obj), (s.start + i,))))) else "Greater")
    return r.f[0]


# ------------------------------------------------------------------ iterator adaptors / consumers
_adapt("step_by", lambda I, it, n: Agg([VecObj(iter_to_list(I, it)[::conc(I, n)]), 0], "ListIter"))


def _find_map(I, itp, f):
    while True:
        r = it_next(I, itp)
        if r.idx == 0: return r
        o = I.call_closure(f, tup(r.f[0]))
        if o.idx == 1: return o


_consuming("find_map", _find_map)


def _key_extreme(which, last_wins):
    def g(I, it, f):
        l = iter_to_list(I, it)
        if not l: return none()
        best = l[0]; bk = I.call_closure(f, tup(Ptr(Cell(best))))
        for x in l[1:]:
            k = I.call_closure(f, tup(Ptr(Cell(x))))
            better = I.binop("Ge" if which == "max" else "Lt", k, bk, "usize")          # max_by_key returns the last maximum, min_by_key the first minimum
            if I.W.branch(better): best, bk = x, k
        return some(best)
    return g


_consuming("max_by_key", _key_extreme("max", True))
_consuming("min_by_key", _key_extreme("min", False))


def _partition(I, it, f):
    a, b = [], []
    for x in iter_to_list(I, it):
        (a if I.W.branch(I.call_closure(f, tup(Ptr(Cell(x))))) else b).append(x)
    return tup(VecObj(a), VecObj(b))


_consuming("partition", _partition)
for _t in ITER_TYPES + ["_"]:
    S[f"<{_t} as DoubleEndedIterator>::rfind"] = S[f"<{_t} as Iterator>::rfind"]
    S[f"<{_t} as DoubleEndedIterator>::rposition"] = S[f"<{_t} as Iterator>::rposition"]


def _iter_eq(I, a, b):
    la, lb = iter_to_list(I, a), iter_to_list(I, b)
    if len(la) != len(lb): return False
    r = True
    for x, y in zip(la, lb): r = _and(r, I.eq_generic(I.deref(x) if type(unwrap_ptr(x)) is Ptr else x, I.deref(y) if type(unwrap_ptr(y)) is Ptr else y))
    return r


_consuming("eq", _iter_eq)
S["<Range as ExactSizeIterator>::len"] = S["<std::ops::Range as ExactSizeIterator>::len"] = S["<core::ops::Range as ExactSizeIterator>::len"] = \
    lambda I, rp: (lambda r: (lambda a, b: I.W.choose(z3.If(z3.ULT(a, b), b - a, 0)) if (is_sym(a) or is_sym(b)) else max(0, b - a))(r.f[0], r.f[1]))(I.deref(rp))


# ------------------------------------------------------------------ Option / Result leftovers
@summary("Result::unwrap_or_default")
def _(I, r):
    if r.idx == 0: return r.f[0]
    import re
    m = re.search(r"Result::<([^,>]+)", getattr(I, "cur_callee", "") or "")
    t = m.group(1).strip() if m else "?"
    from .interp import INT_W
    if t in INT_W: return 0
    if t in ("String", "alloc::string::String"): return VecObj([], "String")
    if t == "bool": return False
    raise Unsupported("Result::unwrap_or_default of " + t)
@summary("Rc::strong_count", "alloc::rc::Rc::strong_count", "std::rc::Rc::strong_count")
def _(I, r): raise Unsupported("Rc::strong_count (reference counts are not modelled)")


# ------------------------------------------------------------------ integers
from .interp import INT_W
_UN = [t for t in INT_W if t[0] == "u"]; _SI = [t for t in INT_W if t[0] == "i"]


def _num(name, fn, types=None):
    for t in (types or list(INT_W)):
        for p in ("core::num::<impl %s>::" % t, "num::<impl %s>::" % t, "<impl %s>::" % t):
            S[p + name] = (lambda t_: (lambda I, *a: fn(I, t_, *a)))(t)


def _mask(t): return (1 << INT_W[t]) - 1
def _bv(v, t): return v if is_sym(v) else z3.BitVecVal(v, INT_W[t])
def _simp(I, e):
    e = z3.simplify(e)
    return e.as_long() if z3.is_bv_value(e) else e


def _sat_add(I, t, a, b):
    w = INT_W[t]; x, y = _bv(a, t), _bv(b, t)
    if t[0] == "u": return _simp(I, z3.If(z3.BVAddNoOverflow(x, y, False), x + y, z3.BitVecVal(_mask(t), w)))
    raise Unsupported("signed saturating_add")
def _sat_sub(I, t, a, b):
    w = INT_W[t]; x, y = _bv(a, t), _bv(b, t)
    if t[0] == "u": return _simp(I, z3.If(z3.UGE(x, y), x - y, z3.BitVecVal(0, w)))
    raise Unsupported("signed saturating_sub")
_num("saturating_add", _sat_add); _num("saturating_sub", _sat_sub)
_num("abs_diff", lambda I, t, a, b: _simp(I, z3.If(z3.UGE(_bv(a, t), _bv(b, t)), _bv(a, t) - _bv(b, t), _bv(b, t) - _bv(a, t))), _UN)


def _pow(I, t, a, e):
    if is_sym(a) or is_sym(e): raise Unsupported("pow of symbolic values")
    w = INT_W[t]
    if t[0] == "i": raise Unsupported("signed pow")
    r = a ** e
    if r > _mask(t): raise Panic("attempt to multiply with overflow", "overflow")
    return r
_num("pow", _pow)


def _bits(kind):
    def f(I, t, a):
        w = INT_W[t]
        v = I.W.choose(a) if is_sym(a) else a
        s = format(v & _mask(t), "0%db" % w)
        if kind == "lz": return len(s) - len(s.lstrip("0"))
        if kind == "tz": return len(s) - len(s.rstrip("0"))
        return s.count("1")
    return f
_num("leading_zeros", _bits("lz")); _num("trailing_zeros", _bits("tz")); _num("count_ones", _bits("ones"))


def _rem_euclid(I, t, a, b):
    if is_sym(a) or is_sym(b): raise Unsupported("rem_euclid of symbolic values")
    w = INT_W[t]; sg = lambda v: v - (1 << w) if t[0] == "i" and v >> (w - 1) else v
    x, y = sg(a), sg(b)
    if y == 0: raise Panic("attempt to calculate the remainder with a divisor of zero", "div")
    return (x % abs(y)) & _mask(t)
_num("rem_euclid", _rem_euclid)


def _ascii_pred(kind):
    R = {"alphanumeric": [(48, 57), (65, 90), (97, 122)], "alphabetic": [(65, 90), (97, 122)], "digit": [(48, 57)], "uppercase": [(65, 90)], "lowercase": [(97, 122)],
         "punctuation": [(33, 47), (58, 64), (91, 96), (123, 126)], "whitespace": [(9, 10), (12, 13), (32, 32)], "hexdigit": [(48, 57), (65, 70), (97, 102)], "graphic": [(33, 126)], "control": [(0, 31), (127, 127)]}[kind]
    def f(I, t, p):
        v = I.deref(p) if type(unwrap_ptr(p)) is Ptr else p
        r = False
        for a, b in R: r = _or(r, _and(I.binop("Ge", v, a, t), I.binop("Le", v, b, t)))
        return r
    return f
for _k in ("alphanumeric", "alphabetic", "digit", "uppercase", "lowercase", "punctuation", "whitespace", "hexdigit", "graphic", "control"):
    _num("is_ascii_" + _k, _ascii_pred(_k), ["u8"])


def _clamp(I, a, lo, hi):
    if I.W.branch(I.binop("Lt", a, lo, "usize")): return lo
    if I.W.branch(I.binop("Gt", a, hi, "usize")): return hi
    return a
for _t in list(INT_W):
    S[f"<{_t} as Ord>::clamp"] = _clamp


# ------------------------------------------------------------------ char predicates backed by core's own Unicode tables: the set is
# enumerated once from the compiled method by verif-native (as for pest's property functions)
def _core_char(name):
    def f(I, c):
        c = I.deref(c) if type(unwrap_ptr(c)) is Ptr else c
        I.W.user.setdefault("unicode_range_limit", 5000)
        return I.unicode_property(name, c, via="core")
    return f
for _n in ("is_alphabetic", "is_lowercase", "is_uppercase", "is_numeric", "is_alphanumeric", "is_whitespace", "is_control"):
    for _p in ("char::methods::<impl char>::", "core::char::methods::<impl char>::", "<impl char>::"):
        S[_p + _n] = _core_char(_n)
