"""Dump MIR of workspace crates from /repo's working tree (never writes into /repo)."""
import os, glob, shutil, hashlib
from common import *

MIRDIR = os.path.join(WORK, "mir")
TARGET = os.path.join(WORK, "mir-target")


def dump(pkg, hooks=False, features=None, no_default=False, cwd=None, tag=None, manifest=None):
    """-> path of the .mir file for package `pkg` (lib target)."""
    os.makedirs(MIRDIR, exist_ok=True)
    name = tag or (pkg + ("-hooks" if hooks else "") + ("-" + "-".join(features) if features else "") + ("-nodef" if no_default else ""))
    out = os.path.join(MIRDIR, name + ".mir")
    tdir = TARGET + "-" + name
    # force rustc to run again for this crate: drop its fingerprints
    for d in glob.glob(os.path.join(tdir, "debug", ".fingerprint", pkg.replace("-", "_") + "-*")) + \
            glob.glob(os.path.join(tdir, "debug", ".fingerprint", pkg + "-*")):
        shutil.rmtree(d, ignore_errors=True)
    cmd = ["cargo", "+nightly", "rustc", "--offline", "--lib"]
    if manifest: cmd += ["--manifest-path", manifest]
    else: cmd += ["-p", pkg]
    if no_default: cmd += ["--no-default-features"]
    if features: cmd += ["--features", ",".join(features)]
    cmd += ["--", "-Zunpretty=mir", "-C", "debug-assertions=off", "-C", "overflow-checks=on"]
    if hooks: cmd += ["--cfg", GUARD]
    env = {"CARGO_TARGET_DIR": tdir}
    import subprocess, fcntl
    e = dict(ENV); e.update(env)
    os.makedirs(tdir, exist_ok=True)
    with open(tdir + ".lock", "w") as lk:
        fcntl.flock(lk, fcntl.LOCK_EX)         # two checks running at once must not share a cargo target directory
        for d in glob.glob(os.path.join(tdir, "debug", ".fingerprint", pkg.replace("-", "_") + "-*")) + \
                glob.glob(os.path.join(tdir, "debug", ".fingerprint", pkg + "-*")):
            shutil.rmtree(d, ignore_errors=True)
        tmp = out + f".tmp{os.getpid()}"
        with open(tmp, "w") as fo:
            p = subprocess.run(cmd, cwd=cwd or REPO, env=e, stdout=fo, stderr=subprocess.PIPE, text=True)
        if p.returncode != 0 or os.path.getsize(tmp) < 100:
            raise Inconclusive(f"MIR dump of {pkg} failed: {p.stderr[-2000:]}")
        os.replace(tmp, out)
    return out
