"""core::fmt / alloc::fmt summaries: `format!`, `write!`, `to_string` executed from the compiler's own lowering.

rustc lowers `format_args!` to `Arguments::new::<N, M>(template, &[Argument; M])` where `template` is the byte string documented
in library/core/src/fmt/mod.rs ("The template byte sequence is the concatenation of parts of the following types: literal piece
/ placeholder / end").  This module interprets that template exactly as `core::fmt::write` does and renders the arguments:

  * integers (`Display`), `char`, `bool`, `str`, `String`, `Cow<str>`, `&T` of those: by the documented `Display`/`Debug` output;
    a symbolic integer is concretised by `World.choose` (every feasible value is explored);
  * any type with a `Display`/`Debug` impl in the loaded MIR: that impl is *executed*, with a `Formatter` whose sink is a String
    (`Formatter::write_str / write_fmt / write_char / pad` are summarised);
  * anything else: the placeholder text `<formatted>` (recorded in `I.W.user["fmt_placeholders"]`).

Width / fill / alignment are honoured for the cases above (`{:w$}`, `{:>5}`, ...); precision and the `+ # 0` flags are honoured for
integers and strings only as far as pest uses them (they raise Unsupported otherwise, so that a run is inconclusive, never wrong).
"""
import re
import z3
from .values import *
from .summaries import S, summary
from .summaries_str import as_str, concrete_bytes, encode_char

PLACEHOLDER = b"<formatted>"


def _arg(kind):
    def f(I, ref, ty=""): return Agg([ref], f"FmtArg:{kind}:{ty}")
    return f


def make_argument(I, callee, key, args):
    """Argument::new_display::<T>(&x) etc.  (called from Interp.call so that T is known)"""
    m = re.search(r"::(new_\w+|from_usize)(?:::<(.*)>)?$", callee)
    kind = m.group(1) if m else "new_display"
    ty = (m.group(2) or "") if m else ""
    return Agg([args[0]], f"FmtArg:{kind}:{ty}")


def _deref_all(I, v):
    for _ in range(8):
        u = unwrap_ptr(v)
        if type(u) is Ptr: v = I.read(u.cell, u.path)
        else: return u
    return v


def _arguments_new(I, template, args):
    t = _deref_all(I, template)
    tb = list(t.items()) if type(t) is SliceRef else list(t.f)
    a = _deref_all(I, args)
    al = list(a.items()) if type(a) is SliceRef else list(a.f)
    return Agg([tb, al], "FmtArguments")


def _arguments_from_str(I, s):
    return Agg([as_str(I, s)], "FmtArgumentsStr")


for _p in ("", "fmt::", "core::fmt::"):
    S[_p + "Arguments::new"] = _arguments_new
    S[_p + "Arguments::from_str"] = S[_p + "Arguments::new_const"] = _arguments_from_str


class Opt:
    __slots__ = ("flags", "width", "precision")

    def __init__(self, flags=0x60000020, width=None, precision=None): self.flags, self.width, self.precision = flags, width, precision

    @property
    def fill(self): return self.flags & 0x1FFFFF

    @property
    def align(self): return (self.flags >> 29) & 3


def _count_chars(I, bs):
    n = 0
    for b in bs:
        if is_sym(b):
            if not I.W.branch(z3.And(z3.UGE(b, 0x80), z3.ULT(b, 0xC0))): n += 1
        elif not 0x80 <= b < 0xC0: n += 1
    return n


def _pad(I, bs, opt, default_right):
    if opt.width is None: return bs
    n = _count_chars(I, bs)
    if n >= opt.width: return bs
    fill = list(chr(opt.fill).encode())
    k = opt.width - n
    al = opt.align
    if al == 3: al = 1 if default_right else 0
    if al == 0: return bs + fill * k
    if al == 1: return fill * k + bs
    return fill * (k // 2) + bs + fill * (k - k // 2)


_INT = re.compile(r"^&*(u8|u16|u32|u64|u128|usize|i8|i16|i32|i64|i128|isize)$")
_W = {"u8": 8, "u16": 16, "u32": 32, "u64": 64, "u128": 128, "usize": 64, "i8": 8, "i16": 16, "i32": 32, "i64": 64, "i128": 128, "isize": 64}


def _escape_debug_str(bs, quote):
    s = bytes(bs).decode("utf-8", "replace")
    out = quote
    for ch in s:
        o = ord(ch)
        if ch == "\t": out += "\\t"
        elif ch == "\r": out += "\\r"
        elif ch == "\n": out += "\\n"
        elif ch == "\\": out += "\\\\"
        elif ch == quote: out += "\\" + quote
        elif ch == "\0": out += "\\0"
        elif o < 0x20 or o == 0x7F or (0x80 <= o < 0xA0): out += "\\u{%x}" % o
        else: out += ch
    return list((out + quote).encode())


_RAW = {}


def _pick_impl(I, key, v):
    """two types of one crate may share their last path segment (ast::Rule / parser::Rule): choose the impl whose body
    fits the value (a derived impl on an enum names the variant; one on a struct does not switch on a discriminant)"""
    c = I.P.index.get(key)
    if not c: return I.P.lookup(key)
    if len(c) == 1: return c[0]
    def raw(f):
        r = _RAW.get(id(f))
        if r is None: r = _RAW[id(f)] = repr(f.blocks)
        return r
    if type(v) is Enum:
        hit = [f for f in c if v.var in raw(f)] or [f for f in c if "discriminant" in raw(f)]
    else:
        hit = [f for f in c if "discriminant" not in raw(f)]
    same = [f for f in hit if f.crate == I.cur_crate]
    return (same or hit or c)[0]


def _ty_args(ty):
    """'Option<(usize, char)>' -> ('Option', ['(usize, char)']); '(a, b)' -> ('tuple', ['a', 'b']); '[u8; 2]' / '[u8]' -> ('slice', ['u8'])"""
    ty = ty.strip()
    while ty.startswith("&"): ty = ty[1:].lstrip()
    if ty.startswith("mut "): ty = ty[4:]
    if ty.startswith("'"):
        ty = ty.split(" ", 1)[1] if " " in ty else ty
    def split(body):
        out = []; d = 0; cur = ""
        for ch in body:
            if ch in "<([": d += 1
            elif ch in ">)]": d -= 1
            if ch == "," and d == 0: out.append(cur.strip()); cur = ""
            else: cur += ch
        if cur.strip(): out.append(cur.strip())
        return out
    if ty.startswith("(") and ty.endswith(")"): return "tuple", split(ty[1:-1])
    if ty.startswith("[") and ty.endswith("]"): return "slice", [ty[1:-1].split(";")[0].strip()]
    if "<" in ty and ty.endswith(">"):
        i = ty.index("<"); return ty[:i].split("::")[-1], [a for a in split(ty[i + 1:-1]) if not a.startswith("'")]
    return ty.split("::")[-1], []


def _sub(I, v, kind, ty): return render(I, Agg([v], f"FmtArg:{kind}:{ty}"), Opt())


def render(I, arg, opt):
    """-> list of bytes (ints / z3 8-bit expressions)"""
    _, kind, ty = arg.ty.split(":", 2)
    v = _deref_all(I, arg.f[0])
    t = type(v)
    head, targs = _ty_args(ty) if ty else ("", [])
    if kind == "new_debug":
        # structured values whose element types are known from the static type
        if t is Agg and v.ty == "tuple" and len(v.f) >= 1 and not isinstance(v.f, tuple) or (t is Agg and v.ty == "tuple" and head == "tuple"):
            fs = list(v.f)
            tys = targs if head == "tuple" and len(targs) == len(fs) else [""] * len(fs)
            out = [0x28]
            for i, (x, xt) in enumerate(zip(fs, tys)):
                if i: out += list(b", ")
                out += _sub(I, x, kind, xt)
            if len(fs) == 1: out.append(0x2C)
            return out + [0x29]
        if t is Agg and v is UNIT and head in ("tuple", "") and not targs: return list(b"()")
        if t is Enum and v.ty == "Option":
            return list(b"None") if v.idx == 0 else list(b"Some(") + _sub(I, v.f[0], kind, targs[0] if head == "Option" and targs else "") + [0x29]
        if t is Enum and v.ty == "Result":
            a = (targs + ["", ""])[:2] if head == "Result" else ["", ""]
            return (list(b"Ok(") + _sub(I, v.f[0], kind, a[0]) if v.idx == 0 else list(b"Err(") + _sub(I, v.f[0], kind, a[1])) + [0x29]
        if (t is VecObj and v.ty != "String") or (t is SliceRef and not v.is_str) or (t is Agg and v.ty == "array"):
            items = list(v.items()) if t is SliceRef else list(v.f)
            et = targs[0] if head in ("Vec", "slice", "VecDeque") and targs else ""
            out = [0x5B]
            for i, x in enumerate(items):
                if i: out += list(b", ")
                out += _sub(I, x, kind, et)
            return out + [0x5D]
    hexk = kind in ("new_lower_hex", "new_upper_hex", "new_binary", "new_octal")
    if t is int or (is_sym(v) and z3.is_bv(v)):
        tn = ty.lstrip("&")
        if tn == "char" and kind == "new_display":
            return _pad(I, list(encode_char(I, v)), opt, False)
        if tn == "char":
            c = I.W.choose(v)
            return _pad(I, _escape_debug_str(chr(c).encode(), "'"), opt, False)
        if tn == "bool":
            return _pad(I, list(b"true" if (v if not is_sym(v) else I.W.choose(v)) else b"false"), opt, False)
        if _INT.match(ty) or ty == "" or re.match(r"^&*[A-Z]\w*$", ty):       # a generic parameter holding an integer: printed as unsigned
            c = I.W.choose(v, 0, 1 << 64)
            w = _W.get(tn, 64)
            if tn.startswith("i") and c >= 1 << (w - 1): c -= 1 << w
            if hexk:
                txt = format(c & ((1 << w) - 1), {"new_lower_hex": "x", "new_upper_hex": "X", "new_binary": "b", "new_octal": "o"}[kind])
                if opt.flags & (1 << 23): txt = {"new_binary": "0b", "new_octal": "0o"}.get(kind, "0x") + txt
            else:
                txt = str(c)
                if opt.flags & (1 << 21) and c >= 0: txt = "+" + txt
            if opt.flags & (1 << 24) and opt.width is not None:
                sign = txt[0] if txt[0] in "+-" else ""
                txt = sign + txt[len(sign):].rjust(opt.width - len(sign), "0")
            return _pad(I, list(txt.encode()), opt, True)
    if t is bool or (is_sym(v) and z3.is_bool(v)):
        b = v if t is bool else I.W.branch(v)
        return _pad(I, list(b"true" if b else b"false"), opt, False)
    if t is SliceRef and v.is_str or (t is VecObj and v.ty == "String") or (t is Enum and v.ty == "Cow"):
        bs = list(as_str(I, v).items())
        if kind == "new_debug":
            if any(is_sym(b) for b in bs): raise Unsupported("Debug of symbolic str")
            bs = _escape_debug_str(bs, '"')
        if opt.precision is not None:
            # truncate to `precision` chars
            out = []; n = 0
            for b in bs:
                cont = I.W.branch(z3.And(z3.UGE(b, 0x80), z3.ULT(b, 0xC0))) if is_sym(b) else 0x80 <= b < 0xC0
                if not cont:
                    if n == opt.precision: break
                    n += 1
                out.append(b)
            bs = out
        return _pad(I, bs, opt, False)
    if kind == "new_debug" and ((t is VecObj and v.ty != "String") or (t is SliceRef and not v.is_str) or (t is Agg and v.ty == "array")):
        items = list(v.items()) if t is SliceRef else list(v.f)
        out = [0x5B]
        for i, x in enumerate(items):
            if i: out += list(b", ")
            out += render(I, Agg([x], "FmtArg:new_debug:"), Opt())
        return out + [0x5D]
    if kind == "new_debug" and t is Agg and v.ty == "Range" and len(v.f) == 2:
        return render(I, Agg([v.f[0]], "FmtArg:new_debug:"), Opt()) + [0x2E, 0x2E] + render(I, Agg([v.f[1]], "FmtArg:new_debug:"), Opt())
    if kind == "new_debug" and t is Enum and v.ty == "Option":
        return list(b"None") if v.idx == 0 else list(b"Some(") + render(I, Agg([v.f[0]], "FmtArg:new_debug:"), Opt()) + [0x29]
    # a user type: run its Display / Debug impl from the MIR
    tr = "Debug" if kind == "new_debug" else "Display" if kind == "new_display" else None
    rt = I.runtime_type(v)
    if tr and rt:
        f = _pick_impl(I, f"<{rt} as {tr}>::fmt", v)
        if f is None and tr == "Debug" and type(v) is Enum and not v.f:
            return _pad(I, list(v.var.encode()), opt, False)
        if f is not None:
            sink = VecObj([], "String")
            fm = Agg([sink, opt], "Formatter")
            ref = unwrap_ptr(arg.f[0])
            # pass a reference to the value itself (strip the extra `&` levels of `&&T`)
            p = ref
            for _ in range(6):
                if type(p) is Ptr:
                    inner = I.read(p.cell, p.path)
                    if type(unwrap_ptr(inner)) is Ptr: p = unwrap_ptr(inner); continue
                break
            if tr == "Debug" and opt.flags & (1 << 23): raise Unsupported("{:#?} of a user type")
            r = I.run(f, [p if type(p) is Ptr else Ptr(Cell(v)), Ptr(Cell(fm))])
            if type(r) is Enum and r.idx == 1: raise Unsupported("Display impl returned Err")
            return list(sink.f)
    I.W.user.setdefault("fmt_placeholders", []).append(f"{kind}<{ty}> of {rt}")
    return list(PLACEHOLDER)


def format_bytes(I, a):
    a = _deref_all(I, a)
    if type(a) is not Agg: raise Unsupported(f"format of {a!r}")
    if a.ty == "FmtArgumentsStr": return list(a.f[0].items())
    if a.ty != "FmtArguments":
        return list(PLACEHOLDER)
    tpl, args = a.f
    if any(is_sym(b) for b in tpl): raise Unsupported("symbolic format template")
    out = []; i = 0; ai = 0
    u16 = lambda j: tpl[j] | (tpl[j + 1] << 8)
    while True:
        n = tpl[i]; i += 1
        if n == 0: break
        if n < 0x80:
            out += tpl[i:i + n]; i += n
        elif n == 0x80:
            ln = u16(i); i += 2
            out += tpl[i:i + ln]; i += ln
        elif n == 0xC0:
            out += render(I, args[ai], Opt()); ai += 1
        else:
            opt = Opt()
            if n & 1:
                opt.flags = tpl[i] | (tpl[i + 1] << 8) | (tpl[i + 2] << 16) | (tpl[i + 3] << 24); i += 4
            if n & 2:
                opt.width = u16(i); i += 2
            if n & 4:
                opt.precision = u16(i); i += 2
            if n & 8:
                ai = u16(i); i += 2
            if n & 16:
                opt.width = I.W.choose(_deref_all(I, args[opt.width].f[0]), 0, 1 << 16)
            if n & 32:
                opt.precision = I.W.choose(_deref_all(I, args[opt.precision].f[0]), 0, 1 << 16)
            if not (opt.flags >> 27) & 1 and not n & 18: opt.width = None
            if not (opt.flags >> 28) & 1 and not n & 36: opt.precision = None
            out += render(I, args[ai], opt); ai += 1
    return out


def _format(I, a): return VecObj(format_bytes(I, a), "String")


for _n in ("alloc::fmt::format", "std::fmt::format", "fmt::format", "format", "alloc::fmt::format::format_inner", "format_inner"):
    S[_n] = _format


def _string_write_fmt(I, p, a):
    s = I.deref(p)
    s.f.extend(format_bytes(I, a))
    return ok(UNIT)


S["<String as core::fmt::Write>::write_fmt"] = S["<String as Write>::write_fmt"] = _string_write_fmt


# ---------------- Formatter (sink = String)
def _fm(I, p):
    fm = I.deref(p)
    if type(fm) is not Agg or fm.ty != "Formatter": raise Unsupported("Formatter that was not created by the fmt summaries")
    return fm


@summary("Formatter::write_str", "core::fmt::Formatter::write_str", "<Formatter as Write>::write_str", "<Formatter as core::fmt::Write>::write_str")
def _(I, p, s):
    _fm(I, p).f[0].f.extend(as_str(I, s).items()); return ok(UNIT)
@summary("Formatter::write_fmt", "core::fmt::Formatter::write_fmt", "<Formatter as Write>::write_fmt", "<Formatter as core::fmt::Write>::write_fmt")
def _(I, p, a):
    _fm(I, p).f[0].f.extend(format_bytes(I, a)); return ok(UNIT)
@summary("Formatter::write_char", "<Formatter as Write>::write_char")
def _(I, p, c):
    _fm(I, p).f[0].f.extend(encode_char(I, c)); return ok(UNIT)
@summary("Formatter::pad", "core::fmt::Formatter::pad")
def _(I, p, s):
    fm = _fm(I, p)
    fm.f[0].f.extend(_pad(I, list(as_str(I, s).items()), fm.f[1], False)); return ok(UNIT)
@summary("<str as Display>::fmt", "<str as core::fmt::Display>::fmt", "<String as Display>::fmt", "<String as core::fmt::Display>::fmt")
def _(I, s, p):
    fm = _fm(I, p)
    fm.f[0].f.extend(_pad(I, list(as_str(I, s).items()), fm.f[1], False)); return ok(UNIT)


def to_string_generic(I, v):
    """<T as ToString>::to_string for T: Display"""
    return VecObj(render(I, Agg([v], "FmtArg:new_display:"), Opt()), "String")


S["<_ as ToString>::to_string"] = S["<Cow as ToString>::to_string"] = lambda I, v: to_string_generic(I, v)


# ---------------- helpers that `#[derive(Debug)]` expands to
def _dbg(I, v):
    return render(I, Agg([v], "FmtArg:new_debug:"), Opt())


def _name(I, s): return list(as_str(I, s).items())


def _debug_struct(nfields):
    def f(I, p, name, *rest):
        fm = _fm(I, p); out = fm.f[0].f
        out.extend(_name(I, name)); out.extend(b" { ")
        for i in range(nfields):
            if i: out.extend(b", ")
            out.extend(_name(I, rest[2 * i])); out.extend(b": "); out.extend(_dbg(I, rest[2 * i + 1]))
        out.extend(b" }")
        return ok(UNIT)
    return f


def _debug_tuple(nfields):
    def f(I, p, name, *rest):
        fm = _fm(I, p); out = fm.f[0].f
        out.extend(_name(I, name)); out.extend(b"(")
        for i in range(nfields):
            if i: out.extend(b", ")
            out.extend(_dbg(I, rest[i]))
        out.extend(b")")
        return ok(UNIT)
    return f


for _k in range(1, 6):
    S[f"Formatter::debug_struct_field{_k}_finish"] = S[f"core::fmt::Formatter::debug_struct_field{_k}_finish"] = _debug_struct(_k)
    S[f"Formatter::debug_tuple_field{_k}_finish"] = S[f"core::fmt::Formatter::debug_tuple_field{_k}_finish"] = _debug_tuple(_k)


@summary("Formatter::alternate", "core::fmt::Formatter::alternate")
def _(I, p): return bool(_fm(I, p).f[1].flags & (1 << 23))
@summary("Formatter::width", "core::fmt::Formatter::width")
def _(I, p):
    w = _fm(I, p).f[1].width
    return none() if w is None else some(w)


# ---------------- the builder API used by hand-written Debug impls (debug_struct / debug_list / debug_tuple)
def _builder(I, p):
    b = I.deref(p)
    if type(b) is not Agg or not b.ty.startswith("Debug"): raise Unsupported("fmt builder not created by the fmt summaries")
    return b


@summary("Formatter::debug_struct", "core::fmt::Formatter::debug_struct")
def _(I, p, name):
    fm = _fm(I, p)
    if fm.f[1].flags & (1 << 23): raise Unsupported("{:#?}")
    fm.f[0].f.extend(_name(I, name))
    return Agg([p, 0], "DebugStruct")
@summary("DebugStruct::field", "core::fmt::DebugStruct::field", "fmt::DebugStruct::field", "core::fmt::builders::DebugStruct::field")
def _(I, bp, name, val):
    b = _builder(I, bp); out = _fm(I, b.f[0]).f[0].f
    out.extend(b" { " if b.f[1] == 0 else b", "); b.f[1] += 1
    out.extend(_name(I, name)); out.extend(b": "); out.extend(_dbg(I, val))
    return bp
@summary("DebugStruct::finish", "core::fmt::DebugStruct::finish", "fmt::DebugStruct::finish", "core::fmt::builders::DebugStruct::finish")
def _(I, bp):
    b = _builder(I, bp)
    if b.f[1]: _fm(I, b.f[0]).f[0].f.extend(b" }")
    return ok(UNIT)
@summary("Formatter::debug_list", "core::fmt::Formatter::debug_list")
def _(I, p):
    fm = _fm(I, p)
    if fm.f[1].flags & (1 << 23): raise Unsupported("{:#?}")
    fm.f[0].f.extend(b"[")
    return Agg([p, 0], "DebugList")
@summary("DebugList::entries", "core::fmt::DebugList::entries", "fmt::DebugList::entries", "core::fmt::builders::DebugList::entries")
def _(I, bp, it):
    from .summaries import iter_to_list
    b = _builder(I, bp); out = _fm(I, b.f[0]).f[0].f
    for x in iter_to_list(I, it):
        if b.f[1]: out.extend(b", ")
        b.f[1] += 1
        out.extend(_dbg(I, x))
    return bp
@summary("DebugList::entry", "core::fmt::DebugList::entry", "fmt::DebugList::entry", "core::fmt::builders::DebugList::entry")
def _(I, bp, x):
    b = _builder(I, bp); out = _fm(I, b.f[0]).f[0].f
    if b.f[1]: out.extend(b", ")
    b.f[1] += 1
    out.extend(_dbg(I, x))
    return bp
@summary("DebugList::finish", "core::fmt::DebugList::finish", "fmt::DebugList::finish", "core::fmt::builders::DebugList::finish")
def _(I, bp):
    b = _builder(I, bp); _fm(I, b.f[0]).f[0].f.extend(b"]")
    return ok(UNIT)


S["<char as ToString>::to_string"] = lambda I, c: VecObj(list(encode_char(I, I.deref(c) if type(unwrap_ptr(c)) is Ptr else c)), "String")
for _t in _W:
    S[f"<{_t} as ToString>::to_string"] = (lambda t_: (lambda I, v: VecObj(render(I, Agg([v], f"FmtArg:new_display:{t_}"), Opt()), "String")))(_t)
S["<bool as ToString>::to_string"] = lambda I, v: VecObj(render(I, Agg([v], "FmtArg:new_display:bool"), Opt()), "String")
