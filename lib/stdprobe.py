#!/usr/bin/env python3-vt
"""Self-test of the executor's std summaries (not a property check): ~130 one-line Rust functions over (&str, usize, usize)
using the std APIs a parser library plausibly uses are compiled natively and dumped as MIR; every function is run on a set
of concrete inputs both ways and the Debug renderings of the results are compared.  A missing summary shows up as
UNSUPPORTED <callee>, a wrong one as MISMATCH.  usage: python3-vt lib/stdprobe.py [name-substring]"""
import os, sys, subprocess, json
sys.path.insert(0, os.path.dirname(os.path.abspath(__file__)))
from common import *

PROBES = [
 # ---- str
 ("find_char", "s.find('a')"), ("find_str", 's.find("ab")'), ("rfind_char", "s.rfind('a')"), ("find_closure", "s.find(|c: char| c.is_ascii_digit())"), ("contains_char", "s.contains('b')"),
 ("contains_str", 's.contains("ba")'), ("starts_with", 's.starts_with("ab")'), ("ends_with", 's.ends_with("b")'), ("ends_with_char", "s.ends_with('b')"), ("strip_prefix", 's.strip_prefix("a")'),
 ("strip_suffix", "s.strip_suffix('b')"), ("trim", "s.trim()"), ("trim_start", "s.trim_start()"), ("trim_end", "s.trim_end()"), ("trim_matches", "s.trim_matches('a')"),
 ("trim_start_matches", "s.trim_start_matches(|c| c == 'a' || c == ' ')"), ("trim_end_matches", "s.trim_end_matches(&['b', ' '][..])"), ("split_count", "s.split('a').count()"),
 ("split_vec", "s.split(',').collect::<Vec<_>>()"), ("lines_vec", "s.lines().collect::<Vec<_>>()"), ("split_ws", "s.split_whitespace().collect::<Vec<_>>()"), ("char_indices", "s.char_indices().collect::<Vec<_>>()"),
 ("chars_rev", "s.chars().rev().collect::<String>()"), ("bytes_sum", "s.bytes().map(|x| x as usize).sum::<usize>()"), ("len", "s.len()"), ("is_empty", "s.is_empty()"), ("get_range", "s.get(a..b)"),
 ("get_from", "s.get(a..)"), ("is_char_boundary", "s.is_char_boundary(a)"), ("to_uppercase", "s.to_ascii_uppercase()"), ("to_lowercase", "s.to_ascii_lowercase()"), ("eq_ignore_case", 's.eq_ignore_ascii_case("AB")'),
 ("repeat", "s.repeat(a % 3)"), ("replace_char", "s.replace('a', \"xy\")"), ("replace_str", 's.replace("ab", "-")'), ("parse_usize", "s.trim().parse::<usize>().ok()"), ("parse_i32", "s.parse::<i32>().ok()"),
 ("chars_nth", "s.chars().nth(a)"), ("chars_last", "s.chars().last()"), ("chars_count", "s.chars().count()"), ("first_char_props", "s.chars().next().map(|c| (c.is_ascii_digit(), c.is_ascii_alphabetic(), c.is_ascii_uppercase(), c.len_utf8()))"),
 ("to_digit", "s.chars().next().and_then(|c| c.to_digit(16))"), ("from_u32", "char::from_u32(a as u32 + 0x40)"), ("split_at", "if s.is_char_boundary(a) { Some(s.split_at(a)) } else { None }"),
 ("split_once", "s.split_once(',')"), ("rsplit_once", "s.rsplit_once('a')"), ("char_cmp", "s.chars().next() < s.chars().last()"), ("str_cmp", 's.cmp("ab")'), ("as_bytes_first", "s.as_bytes().first().copied()"),
 ("to_owned_push", "{ let mut t = s.to_owned(); t.push('!'); t.push_str(\"?\"); t }"), ("string_insert", "{ let mut t = String::from(s); if t.is_char_boundary(a) { t.insert(a, '_'); } t }"),
 ("string_truncate", "{ let mut t = String::from(s); if t.is_char_boundary(a) { t.truncate(a); } t }"), ("string_pop", "{ let mut t = String::from(s); (t.pop(), t) }"), ("char_to_string", "s.chars().next().map(|c| c.to_string())"),
 ("matches_count", "s.matches('a').count()"), ("bytes_rev_pos", "s.bytes().rposition(|x| x == b'a')"), ("bytes_position", "s.bytes().position(|x| x == b'b')"), ("escape_debug", 'format!("{:?}", s)'),
 ("format_width", 'format!("{:>4}|{:<3}|{:^5}|{:04}", a, b, s.len(), a)'), ("format_hex", 'format!("{:x} {:#X} {:b}", a, b, a)'),
 # ---- slices / Vec / iterators (over the bytes of s)
 ("v_position", "v.iter().position(|&x| x == b'a')"), ("v_rposition", "v.iter().rposition(|&x| x == b'a')"), ("v_any_all", "(v.iter().any(|&x| x > 100), v.iter().all(|&x| x < 128))"), ("v_count", "v.iter().filter(|&&x| x == b'a').count()"),
 ("v_min_max", "(v.iter().min().copied(), v.iter().max().copied())"), ("v_rev", "v.iter().rev().copied().collect::<Vec<_>>()"), ("v_enumerate", "v.iter().enumerate().map(|(i, &x)| i + x as usize).collect::<Vec<_>>()"),
 ("v_zip", "v.iter().zip(v.iter().skip(1)).map(|(x, y)| x ^ y).collect::<Vec<_>>()"), ("v_zip_slice", "v.iter().zip(&v[..v.len() / 2]).all(|(x, y)| (x | 0x20) == (y | 0x20))"), ("v_chain", "v.iter().chain(v.iter()).count()"),
 ("v_chain_rev", "v.iter().chain([1u8, 2].iter()).rev().copied().collect::<Vec<_>>()"), ("v_skip_take", "v.iter().skip(a).take(b).copied().collect::<Vec<_>>()"), ("v_skip_while", "v.iter().skip_while(|&&x| x == b'a').copied().collect::<Vec<_>>()"),
 ("v_take_while", "v.iter().take_while(|&&x| x != b'b').count()"), ("v_step_by", "v.iter().step_by(2).copied().collect::<Vec<_>>()"), ("v_windows", "v.windows(2).filter(|w| w[0] == w[1]).count()"),
 ("v_chunks", "v.chunks(2).map(|c| c.len()).collect::<Vec<_>>()"), ("v_first_last", "(v.first().copied(), v.last().copied())"), ("v_split_first", "v.split_first().map(|(h, t)| (*h, t.len()))"), ("v_split_last", "v.split_last().map(|(h, t)| (*h, t.len()))"),
 ("v_contains", "v.contains(&b'a')"), ("v_starts_with", "v.starts_with(b\"ab\")"), ("v_sort", "{ let mut w = v.clone(); w.sort(); w }"), ("v_sort_unstable_by", "{ let mut w = v.clone(); w.sort_unstable_by(|x, y| y.cmp(x)); w }"),
 ("v_dedup", "{ let mut w = v.clone(); w.dedup(); w }"), ("v_retain", "{ let mut w = v.clone(); w.retain(|&x| x != b'a'); w }"), ("v_insert_remove", "{ let mut w = v.clone(); w.insert(0, 7); if w.len() > 1 { w.remove(1); } w }"),
 ("v_swap", "{ let mut w = v.clone(); if w.len() > 1 { w.swap(0, 1); } w }"), ("v_truncate", "{ let mut w = v.clone(); w.truncate(a); w }"), ("v_extend", "{ let mut w = v.clone(); w.extend_from_slice(&[1, 2]); w.extend(v.iter().take(1)); w }"),
 ("v_drain", "{ let mut w = v.clone(); let d: Vec<u8> = w.drain(..a.min(w.len())).collect(); (d, w) }"), ("v_binary_search", "{ let mut w = v.clone(); w.sort(); w.binary_search(&b'b').ok() }"), ("v_concat", "[&v[..], &[9u8][..]].concat()"),
 ("v_join", "vec![s, \"x\"].join(\"-\")"), ("v_iter_sum", "v.iter().map(|&x| x as u32).sum::<u32>()"), ("v_fold", "v.iter().fold(0usize, |acc, &x| acc * 31 + x as usize)"), ("v_last_nth", "(v.iter().last().copied(), v.iter().nth(a).copied())"),
 ("v_find_map", "v.iter().find_map(|&x| if x > b'a' { Some(x - b'a') } else { None })"), ("v_flat_map", "v.iter().flat_map(|&x| vec![x, x]).count()"), ("v_max_by_key", "v.iter().max_by_key(|&&x| x % 7).copied()"),
 ("v_rfind", "v.iter().rfind(|&&x| x < b'b').copied()"), ("v_split", "v.split(|&x| x == b',').map(|p| p.len()).collect::<Vec<_>>()"), ("v_to_vec_eq", "v[..].to_vec() == v"), ("v_get", "(v.get(a).copied(), v.get(a..b).map(|x| x.len()))"),
 ("v_iter_eq", "v.iter().eq(v.iter().rev())"), ("v_partition", "v.iter().partition::<Vec<u8>, _>(|&&x| x < b'b')"), ("v_peekable", "{ let mut it = v.iter().peekable(); let p = it.peek().map(|x| **x); (p, it.next().copied(), it.count()) }"),
 # ---- Option / Result / integers
 ("opt_map", "s.find('a').map(|i| i + a)"), ("opt_and_then", "s.find('a').and_then(|i| s.get(i + 1..))"), ("opt_unwrap_or", "s.find('z').unwrap_or(b)"), ("opt_ok_or", "s.find('a').ok_or(\"none\")"), ("opt_filter", "s.find('a').filter(|&i| i > 0)"),
 ("opt_zip", "s.find('a').zip(s.find('b'))"), ("opt_or_else", "s.find('z').or_else(|| s.find('a'))"), ("opt_take", "{ let mut o = s.find('a'); (o.take(), o) }"), ("opt_is_some_and", "s.find('a').is_some_and(|i| i < a)"),
 ("opt_map_or", "s.find('a').map_or(7, |i| i * 2)"), ("res_map_err", "s.parse::<u8>().map_err(|_| a).map(|x| x as usize + b)"), ("res_unwrap_or_default", "s.parse::<u16>().unwrap_or_default()"), ("res_and_then", "s.parse::<u8>().ok().and_then(|x| x.checked_add(200))"),
 ("int_checked", "(a.checked_add(b), a.checked_sub(b), (a as u8).checked_mul(b as u8))"), ("int_saturating", "(a.saturating_sub(b), (a as u8).saturating_add(250))"), ("int_wrapping", "((a as u8).wrapping_add(250), (a as u8).wrapping_sub(b as u8))"),
 ("int_pow", "(a % 5).pow(b as u32 % 4)"), ("int_minmax", "(a.min(b), a.max(b), a.abs_diff(b))"), ("int_bits", "((a as u32).leading_zeros(), (a as u32).count_ones(), (a as u8).trailing_zeros())"), ("int_rem", "(a as i32 - 5).rem_euclid(3)"),
 ("int_to_string", "(a.to_string(), (a as i32 - 7).to_string())"), ("int_clamp", "a.clamp(1, 3)"), ("int_cmp", "a.cmp(&b)"), ("int_div_rem", "if b != 0 { Some((a / b, a % b)) } else { None }"), ("int_shifts", "((a as u32) << (b as u32 % 8), (a as u32 + 256) >> (b as u32 % 8))"),
 ("int_from_str_radix", "usize::from_str_radix(s.trim(), 16).ok()"), ("u8_ascii", "((a as u8 + 60).is_ascii_alphanumeric(), (a as u8 + 60).to_ascii_lowercase(), (a as u8 + 60).is_ascii_punctuation())"),
 ("tuple_cmp", "(a, b) < (b, a)"), ("range_contains", "((1..4).contains(&a), (1..=4).contains(&b))"), ("range_rev_sum", "(a..b).rev().map(|x| x * 2).collect::<Vec<_>>()"), ("range_len", "(a..b).len()"),
 ("mem_swap", "{ let (mut x, mut y) = (a, b); std::mem::swap(&mut x, &mut y); (x, y) }"), ("mem_replace", "{ let mut x = a; let old = std::mem::replace(&mut x, b); (old, x) }"), ("mem_take", "{ let mut t = String::from(s); let u = std::mem::take(&mut t); (t, u) }"),
 ("cow", "{ let c: std::borrow::Cow<str> = if a > 1 { s.into() } else { s.to_uppercase().into() }; c.len() }"), ("box_rc", "{ let r = std::rc::Rc::new(a); let q = r.clone(); (*q + b, std::rc::Rc::strong_count(&r)) }"),
]

INPUTS = [("", 0, 0), ("a", 0, 1), ("ab", 1, 2), ("aba,b a", 2, 5), (" 42 ", 1, 3), ("é,ab\nb", 2, 4), ("ABab12", 3, 3), ("ff", 4, 1), ("a,b,,c", 0, 6), ("-7", 1, 0), ("bbaa  ", 5, 2), ("日本a", 3, 6)]


def crate_dir():
    d = os.path.join(WORK, "stdprobe")
    os.makedirs(os.path.join(d, "src"), exist_ok=True)
    open(os.path.join(d, "Cargo.toml"), "w").write('[package]\nname = "stdprobe"\nversion = "0.0.0"\nedition = "2021"\n\n[workspace]\n\n[lib]\npath = "src/lib.rs"\n\n[[bin]]\nname = "stdprobe"\npath = "src/main.rs"\n')
    lib = ["#![allow(unused_variables, unused_mut, clippy::all)]"]
    for n, e in PROBES:
        lib.append(f"pub fn p_{n}(s: &str, a: usize, b: usize) -> String {{ let v: Vec<u8> = s.bytes().collect(); format!(\"{{:?}}\", {e}) }}")
    lib.append("pub fn dispatch(name: &str) -> Option<fn(&str, usize, usize) -> String> {\n    match name {\n" + "".join(f'        "{n}" => Some(p_{n}),\n' for n, _ in PROBES) + "        _ => None,\n    }\n}")
    open(os.path.join(d, "src", "lib.rs"), "w").write("\n".join(lib) + "\n")
    open(os.path.join(d, "src", "main.rs"), "w").write('''use std::io::BufRead;
fn main() {
    std::panic::set_hook(Box::new(|_| {}));
    for line in std::io::stdin().lock().lines() {
        let line = line.unwrap();
        let p: Vec<&str> = line.split(' ').collect();
        let f = stdprobe::dispatch(p[0]).unwrap();
        let bytes: Vec<u8> = (0..p[1].len() / 2).map(|i| u8::from_str_radix(&p[1][2 * i..2 * i + 2], 16).unwrap()).collect();
        let s = String::from_utf8(bytes).unwrap();
        let (a, b): (usize, usize) = (p[2].parse().unwrap(), p[3].parse().unwrap());
        let r = std::panic::catch_unwind(|| f(&s, a, b));
        println!("{}", r.unwrap_or_else(|_| "PANIC".to_string()).replace('\\n', "\\\\n"));
    }
}
''')
    return d


def main():
    only = sys.argv[1] if len(sys.argv) > 1 else ""
    d = crate_dir()
    tdir = os.path.join(WORK, "stdprobe-target")
    rc, out = sh(["cargo", "build", "--offline"], cwd=d, env={"CARGO_TARGET_DIR": tdir}, timeout=1800)
    if rc != 0: print(out[-4000:]); return 2
    from mirsym import dump
    from mirsym.interp import Program, Explorer, Interp
    from mirsym.values import SliceRef, VecObj, Panic, Unsupported
    from mirsym.setup import S
    mir = dump.dump("stdprobe", manifest=os.path.join(d, "Cargo.toml"), cwd=d, tag="stdprobe")
    P = Program(d); P.load(mir, "stdprobe", root=d) if "root" in Program.load.__code__.co_varnames else P.load(mir, "stdprobe")
    reqs = [(n, i) for n, _ in PROBES if only in n for i in INPUTS]
    nat = subprocess.run([os.path.join(tdir, "debug", "stdprobe")], input="\n".join(f"{n} {i[0].encode().hex()} {i[1]} {i[2]}" for n, i in reqs) + "\n", capture_output=True, text=True).stdout.split("\n")
    stats = {}; detail = {}
    for (n, inp), want in zip(reqs, nat):
        ex = Explorer(max_steps=400_000)
        def body(W):
            I = Interp(P, W, S)
            b = list(inp[0].encode())
            try:
                r = I.call("", "p_" + n, [SliceRef(VecObj(b, "input"), 0, len(b), True), inp[1], inp[2]])
                return bytes(r.f).decode(errors="replace").replace("\n", "\\n")
            except Panic:
                return "PANIC"
            except Exception as e:
                return e
        got = None
        try:
            for W, res in ex.explore(body):
                got = res; break
        except Exception as e:
            got = e
        if isinstance(got, Exception):
            k = "UNSUPPORTED" if isinstance(got, Unsupported) else "ERROR"
            stats.setdefault(n, set()).add(k); detail.setdefault(n, f"{type(got).__name__}: {str(got)[:160]}")
        elif got != want:
            stats.setdefault(n, set()).add("MISMATCH"); detail.setdefault(n, f"on {inp!r}: executor {got!r}, native {want!r}")
        else:
            stats.setdefault(n, set()).add("ok")
    bad = 0
    for n, _ in PROBES:
        if n not in stats: continue
        st = stats[n] - {"ok"}
        if st:
            bad += 1; print(f"{n:22s} {'/'.join(sorted(st)):12s} {detail.get(n, '')}")
    print(f"{len(stats) - bad}/{len(stats)} probes agree with the native run on all {len(INPUTS)} inputs")
    json.dump({n: sorted(v) for n, v in stats.items()}, open(os.path.join(WORK, "stdprobe.json"), "w"), indent=1)
    return 0 if bad == 0 else 1


if __name__ == "__main__":
    sys.exit(main())
