"""Running pest_vm::Vm from its MIR on symbolic input, and comparing with the reference PEG semantics."""
import z3, time
from mirsym.values import *
from mirsym.interp import Explorer, Interp
from mirsym.summaries import S
from mirsym.setup import fn_evidence
from progsym import utf8_constraints, str_const, queue_view, stack_view, RefState, RefPanic, F_POSITION, F_ATT_POS, F_POS_ATT, F_NEG_ATT
import pegsym
from pegsym import PegRef, NonTermination


def tok_str(q, names=True):
    out = []
    for t in q:
        if t[0] == "S":
            r = q[t[1]][2] if t[1] < len(q) and q[t[1]][0] == "E" else b"?"
            out.append(f"S{_nm(r)}@{t[2]}")
        else:
            out.append(f"E{_nm(t[2])}@{t[4]}")
    return ",".join(out)


def _nm(r):
    if isinstance(r, (bytes, bytearray)): return r.decode()
    if type(r) is SliceRef: return bytes(r.items()).decode()
    if type(r) is Enum: return r.var
    return str(r)


def tags_str(q):
    """tags of the pairs in start order (the order of Pairs::flatten)"""
    out = []
    for t in q:
        if t[0] == "S":
            e = q[t[1]] if t[1] < len(q) else None
            out.append(e[3].hex() if e is not None and e[0] == "E" and e[3] else "-")
    return ",".join(out)


def vm_queue(ps):
    out = []
    for t in queue_view(ps):
        if t[0] == "S": out.append(("S", t[1], t[2]))
        else: out.append(("E", t[1], _nm(t[2]).encode(), t[3], t[4]))
    return out


def explore_grammar(args):
    """args: P, optimized rules (VM side), reference rules (ast side, or None), start rule, N, max paths
    -> rows: per path: input, VM outcome (ok, pos, tokens, stack), reference outcome, native request pieces"""
    P, vm_rules, ref_rules, start, N, opts = args
    rows = []; fns = set(); nq = 0; st_time = 0.0; npaths = 0
    max_steps = opts.get("max_steps", 300_000)
    for n in range(opts.get("nmin", 0), N + 1):
        ex = Explorer(max_steps=max_steps)
        bs = [z3.BitVec(f"b{i}", 8) for i in range(n)]
        ex.add_base(*utf8_constraints(bs))
        if opts.get("ascii"):
            for b in bs: ex.add_base(z3.ULT(b, 0x80))

        def body(W):
            W.globals["CALL_LIMIT"] = 0; W.globals["ERROR_DETAIL"] = bool(opts.get("error_detail"))
            I = Interp(P, W, S)
            vm = pegsym.build_vm(P, vm_rules, I)
            inp = SliceRef(VecObj(list(bs), "input"), 0, n, True)
            out = {"I": I}
            try:
                if opts.get("via_state"):
                    from props.c03 import S_STATE
                    I.S = S_STATE
                    out["sr"] = I.call("", "Vm::parse", [Ptr(Cell(vm)), str_const(start.encode()), inp])
                else:
                    s0 = I.call("", "ParserState::new", [inp])
                    r = I.call("", "Vm::parse_rule", [Ptr(Cell(vm)), str_const(start.encode()), s0])
                    out["ok"] = r.idx == 0; out["ps"] = I.deref(r.f[0])
            except Panic as e:
                out["panic"] = str(e)
            except StepLimit as e:
                out["steplimit"] = str(e)
            fns.update(I.fn_used)
            if ref_rules is not None:
                rs = RefState()
                log = [] if opts.get("attempts") else None
                try:
                    pr = PegRef(W, list(bs), ref_rules, log=log)
                    out["rok"] = pr.call_rule(start, rs); out["rs"] = rs; out["rlog"] = log
                    out["rreport"] = (pr.rep_pos, sorted(set(x.decode() for x in pr.rep_P)), sorted(set(x.decode() for x in pr.rep_N)))
                except RefPanic as e:
                    out["rpanic"] = str(e)
                except NonTermination as e:
                    out["rnonterm"] = str(e)
                except StepLimit as e:
                    out["rnonterm"] = "budget: " + str(e)
            return out

        for W, res in ex.explore(body, limit_paths=opts.get("max_paths")):
            npaths += 1
            if isinstance(res, Exception):
                rows.append({"n": n, "inp": None, "event": f"{type(res).__name__}: {res}"}); continue
            m = W.get_model()
            evb = lambda x: m.eval(x, model_completion=True).as_long() if is_sym(x) else x
            row = {"n": n, "inp": bytes(evb(b) for b in bs).hex() or "-"}
            if "panic" in res: row["vm"] = {"res": "PANIC", "msg": res["panic"]}
            elif "steplimit" in res: row["vm"] = {"res": "NONTERM", "msg": res["steplimit"]}
            elif "sr" in res:
                r = res["sr"]; v = r.f[0]
                if r.idx == 0:
                    class _F: pass
                    q = vm_queue(Agg([None, res["I"].deref(v.f[0])], "ps"))
                    row["vm"] = {"res": "OK", "toks": tok_str(q), "tags": tags_str(q)}
                else:
                    variant, pos = v.f[0], v.f[1]
                    if variant.var == "CustomError":
                        row["vm"] = {"res": "ERR", "at": pos.f[1], "custom": bytes(variant.f[0].f).decode(errors="replace")}
                    else:
                        row["vm"] = {"res": "ERR", "at": pos.f[1], "P": [_nm(x) for x in variant.f[0].f], "N": [_nm(x) for x in variant.f[1].f]}
            else:
                ps = res["ps"]; q = vm_queue(ps)
                row["vm"] = {"res": "OK" if res["ok"] else "ERR", "pos": ps.f[F_POSITION].f[1], "toks": tok_str(q), "tags": tags_str(q),
                             "stack": ",".join(bytes(evb(x) for x in it).hex() or "-" for it in stack_view(res["I"], ps)),
                             "apos": ps.f[F_ATT_POS], "pa": sorted(set(_nm(x) for x in ps.f[F_POS_ATT].f)), "na": sorted(set(_nm(x) for x in ps.f[F_NEG_ATT].f))}
            if ref_rules is not None:
                if "rpanic" in res: row["ref"] = {"res": "PANIC", "msg": res["rpanic"]}
                elif "rnonterm" in res: row["ref"] = {"res": "NONTERM", "msg": res["rnonterm"]}
                else:
                    rs = res["rs"]
                    row["ref"] = {"res": "OK" if res["rok"] else "ERR", "pos": rs.pos, "toks": tok_str(rs.queue), "tags": tags_str(rs.queue),
                                  "stack": ",".join(bytes(evb(x) for x in it).hex() or "-" for it in rs.stack)}
                    if res.get("rlog") is not None: row["rlog"] = [(a.decode(), b, c, d, e) for a, b, c, d, e in res["rlog"]]
                    row["rreport"] = res.get("rreport")
            rows.append(row)
        nq += ex.nqueries; st_time += ex.solver_time
        if opts.get("max_paths") and npaths >= opts["max_paths"]: break
    return {"start": start, "rows": rows, "queries": nq, "solver_s": st_time, "paths": npaths, "fns": fn_evidence(fns)}


def differs(vm, ref, success_only_fields=("pos", "toks", "tags", "stack")):
    """None or a description of the disagreement between VM outcome and reference outcome"""
    if vm["res"] in ("PANIC", "NONTERM") or ref["res"] in ("PANIC", "NONTERM"):
        if vm["res"] != ref["res"]: return f"implementation {vm['res']} ({vm.get('msg', '')[:80]}) but reference {ref['res']} ({ref.get('msg', '')[:80]})"
        return None
    if vm["res"] != ref["res"]: return f"acceptance differs: implementation {vm['res']}, reference {ref['res']}"
    if vm["res"] == "OK":
        d = [k for k in success_only_fields if str(vm[k]) != str(ref[k])]
        if d: return "on success " + ", ".join(f"{k}: impl={vm[k]} ref={ref[k]}" for k in d)
    return None
