"""Build and drive verif-native (concrete runs of the real compiled crates)."""
import os, subprocess, shutil
from common import *

SRC = os.path.join(VERIF, "native", "src")
_built = {}


def build(extras=False, release=False):
    """-> path of the binary, rebuilt from /repo's working tree (cargo decides what is stale)."""
    key = (extras, release)
    if key in _built: return _built[key]
    name = "native-crate" + ("-extras" if extras else "")
    d = os.path.join(WORK, name)
    os.makedirs(d, exist_ok=True)
    t = open(os.path.join(VERIF, "native", "Cargo.toml.in")).read()
    t = t.replace("@SRC@", SRC).replace("@REPO@", REPO)
    p = os.path.join(d, "Cargo.toml")
    if not os.path.exists(p) or open(p).read() != t: open(p, "w").write(t)
    shutil.copy(os.path.join(REPO, "Cargo.lock"), os.path.join(d, "Cargo.lock"))
    tdir = os.path.join(WORK, name + "-target")
    cmd = ["cargo", "build", "--offline"] + (["--release"] if release else []) + (["--features", "grammar-extras"] if extras else [])
    rc, out = sh(cmd, cwd=d, env={"CARGO_TARGET_DIR": tdir, "RUSTFLAGS": f"--cfg {GUARD}"}, timeout=1800)
    if rc != 0:
        raise Inconclusive("verif-native build failed:\n" + out[-3000:])
    b = os.path.join(tdir, "release" if release else "debug", "verif-native")
    _built[key] = b
    return b


def run_lines(cmd, lines, extras=False, release=False, args=(), timeout=600):
    """send lines to `verif-native <cmd>`; returns reply lines (same count) or raises Inconclusive."""
    b = build(extras, release)
    p = subprocess.run([b, cmd] + list(args), input="\n".join(lines) + "\n", capture_output=True, text=True, timeout=timeout, errors="replace")
    out = p.stdout.split("\n")
    if out and out[-1] == "": out.pop()
    if p.returncode != 0 or len(out) != len(lines):
        raise Inconclusive(f"verif-native {cmd}: rc={p.returncode}, {len(out)} replies for {len(lines)} requests; stderr: {p.stderr[-1500:]}")
    return out
