"""Build and drive verif-native (concrete runs of the real compiled crates)."""
import os, subprocess, shutil
from common import *

SRC = os.path.join(VERIF, "native", "src")
_built = {}


def unicode_tables():
    """the three BY_NAME tables as written in the generated source files of the working tree: {module: [(display name, IDENT)]}"""
    import re
    out = {}
    for mod in ("binary", "category", "script"):
        src = open(os.path.join(REPO, f"pest/src/unicode/{mod}.rs")).read()
        m = re.search(r"pub const BY_NAME:[^=]*=\s*&\[(.*?)\];", src, re.S)
        out[mod] = re.findall(r'\("([^"]+)",\s*([A-Z0-9_]+)\)', m.group(1)) if m else []
    return out


def build(extras=False, release=False):
    """-> path of the binary, rebuilt from /repo's working tree (cargo decides what is stale)."""
    key = (extras, release)
    if key in _built: return _built[key]
    name = "native-crate" + ("-extras" if extras else "")
    d = os.path.join(WORK, name)
    os.makedirs(d, exist_ok=True)
    t = open(os.path.join(VERIF, "native", "Cargo.toml.in")).read()
    t = t.replace("@SRC@", SRC).replace("@REPO@", REPO)
    p = os.path.join(d, "Cargo.toml")
    if not os.path.exists(p) or open(p).read() != t: open(p, "w").write(t)
    copy_lockfile(d)
    # identifier -> property *function* (by_name only reaches the tables): generated from the identifiers of the BY_NAME tables
    import re
    modsrc = re.sub(r"//[^\n]*", "", open(os.path.join(REPO, "pest/src/unicode/mod.rs")).read())
    mentioned = set(re.findall(r"\b[A-Z][A-Z0-9_]+\b", modsrc))          # a table entry without a function is not mentioned there
    idents = sorted({i for t in unicode_tables().values() for _, i in t if i in mentioned})
    g = "pub fn unicode_fn(name: &str) -> Option<fn(char) -> bool> {\n    match name {\n" + "".join(f'        "{i}" => Some(pest::unicode::{i}),\n' for i in idents) + "        _ => None,\n    }\n}\n"
    gp = os.path.join(d, "gen_unicode.rs")
    if not os.path.exists(gp) or open(gp).read() != g: open(gp, "w").write(g)
    tdir = os.path.join(WORK, name + "-target")
    cmd = ["cargo", "build", "--offline"] + (["--release"] if release else []) + (["--features", "grammar-extras"] if extras else [])
    rc, out = sh(cmd, cwd=d, env={"CARGO_TARGET_DIR": tdir, "RUSTFLAGS": f"--cfg {GUARD}"}, timeout=1800)
    if rc != 0:
        raise Inconclusive("verif-native build failed:\n" + out[-3000:])
    b = os.path.join(tdir, "release" if release else "debug", "verif-native")
    _built[key] = b
    return b


def run_lines(cmd, lines, extras=False, release=False, args=(), timeout=600, tolerant=False):
    """send lines to `verif-native <cmd>`; returns reply lines (same count) or raises Inconclusive."""
    b = build(extras, release)

    def one(chunk):
        try:
            p = subprocess.run([b, cmd] + list(args), input="\n".join(chunk) + "\n", capture_output=True, text=True, timeout=timeout, errors="replace")
        except subprocess.TimeoutExpired:
            raise Inconclusive(f"verif-native {cmd}: no answer within {timeout}s for a batch of {len(chunk)} requests (a native run that does not terminate?)")
        out = p.stdout.split("\n")
        if out and out[-1] == "": out.pop()
        if p.returncode != 0 or len(out) != len(chunk):
            raise Inconclusive(f"verif-native {cmd}: rc={p.returncode}, {len(out)} replies for {len(chunk)} requests; stderr: {p.stderr[-1500:]}")
        return out

    if tolerant:
        # a request may kill the process (stack overflow = abort): replies are line-buffered, so the number of replies received
        # is the index of the fatal request; it is answered "ABORT <how>" and the rest goes to a new process
        out = []; rest = list(lines)
        while rest:
            try:
                p = subprocess.run([b, cmd] + list(args), input="\n".join(rest) + "\n", capture_output=True, text=True, timeout=timeout, errors="replace")
            except subprocess.TimeoutExpired:
                raise Inconclusive(f"verif-native {cmd}: no answer within {timeout}s")
            got = p.stdout.split("\n")
            if got and got[-1] == "": got.pop()
            if p.returncode == 0 and len(got) == len(rest): return out + got
            if len(got) >= len(rest): raise Inconclusive(f"verif-native {cmd}: rc={p.returncode} after answering everything; stderr: {p.stderr[-500:]}")
            out += got + [f"ABORT rc={p.returncode} " + p.stderr.strip().split("\n")[-1][:160]]
            rest = rest[len(got) + 1:]
        return out
    if len(lines) < 4000: return one(lines)
    # many requests (thorough tiers): contiguous chunks, one process each (requests are independent; order is kept)
    from concurrent.futures import ThreadPoolExecutor
    k = min(NCPU, 16); n = (len(lines) + k - 1) // k
    chunks = [lines[i:i + n] for i in range(0, len(lines), n)]
    with ThreadPoolExecutor(len(chunks)) as ex:
        outs = list(ex.map(one, chunks))
    return [r for o in outs for r in o]
