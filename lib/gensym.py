"""Generated parsers (pest_generator output) as MIR: driver crate construction and loading."""
import os, re, shutil, hashlib
from common import *
import native
from mirsym import dump
from mirsym.interp import Program
from mirsym.setup import program as base_program


def enum_variants(src, keep_raw=False):
    """variant names of the generated `pub enum Rule { .. }` (doc attributes may contain commas and braces)"""
    src = re.sub(r'#\s*\[\s*doc\s*=\s*"(?:[^"\\]|\\.)*"\s*\]', "", src)
    m = re.search(r"pub enum Rule \{([^}]*)\}", src)
    vs = [re.sub(r"#\s*\[[^\]]*\]", "", v).strip() for v in m.group(1).split(",")]
    vs = [v for v in vs if v]
    return vs if keep_raw else [v.replace("r#", "") for v in vs]


def make_driver(grammars, extras=False, tag="gen"):
    """grammars: list of texts -> (crate dir, mir path, list of ok flags). One module g<i> / struct G<i> per grammar,
    each module on its own source line so that closure spans are unique."""
    reps = native.run_lines("gen", [f"G{i} {g.encode().hex()}" for i, g in enumerate(grammars)], extras=extras, timeout=1800)
    d = os.path.join(WORK, f"{tag}-crate" + ("-extras" if extras else ""))
    os.makedirs(os.path.join(d, "src"), exist_ok=True)
    lines = ["#![allow(warnings)]"]
    oks = []
    for i, r in enumerate(reps):
        if not r.startswith("OK "):
            oks.append(False); lines.append(f"// g{i}: generator failed"); continue
        src = bytes.fromhex(r[3:]).decode().replace("\n", " ")
        lines.append(f"pub mod g{i} {{ pub struct G{i}; {src} }}")
        oks.append(True)
    open(os.path.join(d, "src", "lib.rs"), "w").write("\n".join(lines) + "\n")
    # a binary over the same source, for native replay of every path
    arms = []
    for i, (r, g) in enumerate(zip(reps, grammars)):
        if not r.startswith("OK "): continue
        vs = enum_variants(bytes.fromhex(r[3:]).decode(), keep_raw=True)
        vs = [v for v in vs if v]
        rarms = " ".join(f'"{v.replace("r#", "")}" => g{i}::Rule::{v},' for v in vs)
        arms.append(f'{i} => {{ let r = match rule {{ {rarms} _ => return "NORULE".into() }}; fmt(<g{i}::G{i} as Parser<g{i}::Rule>>::parse(r, input)) }}')
    main = MAIN_RS.replace("@ARMS@", "\n            ".join(arms))
    os.makedirs(os.path.join(d, "src", "bin"), exist_ok=True)
    open(os.path.join(d, "src", "bin", "gen_native.rs"), "w").write(main)
    toml = f"""[package]
name = "verif_gen"
version = "0.0.0"
edition = "2021"
publish = false

[workspace]

[lib]
path = "src/lib.rs"

[dependencies]
pest = {{ path = "{REPO}/pest" }}
"""
    p = os.path.join(d, "Cargo.toml")
    if not os.path.exists(p) or open(p).read() != toml: open(p, "w").write(toml)
    copy_lockfile(d)
    mir = dump.dump("verif_gen", cwd=d, tag=f"{tag}" + ("-extras" if extras else ""), manifest=os.path.join(d, "Cargo.toml"))
    return d, mir, oks


MAIN_RS = r"""
#![allow(warnings)]
use pest::Parser;
use std::io::{BufRead, Write};
use verif_gen::*;

fn hex(s: &str) -> String { if s.is_empty() { "-".into() } else { s.bytes().map(|b| format!("{b:02x}")).collect() } }
fn unhex(s: &str) -> String {
    let s = if s == "-" { "" } else { s };
    String::from_utf8((0..s.len() / 2).map(|i| u8::from_str_radix(&s[2 * i..2 * i + 2], 16).unwrap()).collect()).unwrap()
}

fn fmt<R: pest::RuleType>(r: Result<pest::iterators::Pairs<'_, R>, pest::error::Error<R>>) -> String {
    use pest::error::{ErrorVariant, InputLocation};
    match r {
        Ok(pairs) => {
            let toks: Vec<String> = pairs.clone().tokens().map(|t| match t {
                pest::Token::Start { rule, pos } => format!("S{rule:?}@{}", pos.pos()),
                pest::Token::End { rule, pos } => format!("E{rule:?}@{}", pos.pos()),
            }).collect();
            let tags: Vec<String> = pairs.flatten().map(|p| p.as_node_tag().map(|t| hex(t)).unwrap_or("-".into())).collect();
            format!("OK {} tags={}", toks.join(","), tags.join(","))
        }
        Err(e) => {
            let loc = match e.location { InputLocation::Pos(p) => format!("{p}"), InputLocation::Span((a, b)) => format!("{a}-{b}") };
            let l = |v: &Vec<R>| v.iter().map(|x| format!("{x:?}")).collect::<Vec<_>>().join(",");
            let var = match &e.variant {
                ErrorVariant::ParsingError { positives, negatives } => format!("P[{}]N[{}]", l(positives), l(negatives)),
                ErrorVariant::CustomError { message } => format!("C[{}]", message),
            };
            format!("ERR at={loc} lc=- {var}")
        }
    }
}

fn run(g: usize, rule: &str, input: &str) -> String {
    match g {
            @ARMS@
        _ => "NOGRAMMAR".into(),
    }
}

fn main() {
    let stdin = std::io::stdin();
    let out = std::io::stdout();
    let mut out = std::io::BufWriter::new(out.lock());
    for line in stdin.lock().lines() {
        let line = line.unwrap();
        let mut it = line.split(' ');
        let g: usize = it.next().unwrap().parse().unwrap();
        let rule = it.next().unwrap().to_string();
        let input = unhex(it.next().unwrap());
        let r = std::panic::catch_unwind(move || run(g, &rule, &input)).unwrap_or_else(|e| {
            let m = if let Some(s) = e.downcast_ref::<&str>() { s.to_string() } else if let Some(s) = e.downcast_ref::<String>() { s.clone() } else { "panic".into() };
            format!("PANIC {}", m.replace('\n', " "))
        });
        writeln!(out, "{r}").unwrap();
    }
}
"""


def build_native(d, tag="gen", extras=False):
    tdir = os.path.join(WORK, f"{tag}-native-target" + ("-extras" if extras else ""))
    rc, out = sh(["cargo", "build", "--offline", "--bin", "gen_native"], cwd=d, env={"CARGO_TARGET_DIR": tdir}, timeout=3000)
    if rc != 0: raise Inconclusive("generated-parser native build failed:\n" + out[-3000:])
    return os.path.join(tdir, "debug", "gen_native")


def run_native(binary, lines, timeout=1800):
    import subprocess
    p = subprocess.run([binary], input="\n".join(lines) + "\n", capture_output=True, text=True, timeout=timeout, errors="replace")
    out = p.stdout.split("\n")
    if out and out[-1] == "": out.pop()
    if p.returncode != 0 or len(out) != len(lines):
        raise Inconclusive(f"gen_native: rc={p.returncode}, {len(out)} replies for {len(lines)} requests; {p.stderr[-1000:]}")
    return out


def load(grammars, extras=False, tag="gen", base_crates=("pest",)):
    d, mir, oks = make_driver(grammars, extras, tag)
    base = base_program(base_crates, features=(("grammar-extras",) if extras else ()))
    P = Program(REPO)
    # share the already parsed pest program
    P.fns = list(base.fns); P.index = {k: list(v) for k, v in base.index.items()}; P.closures = dict(base.closures)
    P.consts = dict(base.consts); P.variants = {k: list(v) for k, v in base.variants.items()}; P._src = base._src; P.compiled = base.compiled
    P.root = REPO
    P.crate_roots = dict(getattr(base, "crate_roots", {}))
    P.load(mir, "verif_gen", root=d)
    src = open(os.path.join(d, "src", "lib.rs")).read().split("\n")
    for i, ok in enumerate(oks):
        if not ok: continue
        line = next(l for l in src if l.startswith(f"pub mod g{i} "))
        vs = enum_variants(line)
        vs = [v for v in vs if v]
        P.variants[f"g{i}::Rule"] = vs
        if len(oks) == 1: P.variants["Rule"] = vs
    return P, oks, d
