"""Rendering of pest::error::Error executed from MIR on symbolic text (engine M), with the oracle of C10's last sentence:
"Rendering an error built from any position or span never panics and shows that line number, that line's text and a marker
under the reported column."

Text = a concrete prefix of K newlines (to reach multi-digit line numbers) + N symbolic bytes (valid UTF-8).  The reference
(line number, column, the line's bytes) is computed by walking the text and forking on the class of each byte it needs, so every
path fixes the line structure and leaves the payload bytes symbolic; the output of the real `Error::format` is then compared
with the reference by solver queries (`must`), not on sample values.

The oracle is deliberately about *content*, not the exact layout:
  P1  no panic (constructor and rendering);
  P2  Error.line_col / Error.location equal the reference line/column/offset;
  P3  some row reads `<L> | <D>` where L is the decimal line number and D is the line's text with each CR/LF either left out
      or shown as its picture U+240D/U+240A (pest does both, depending on where the error sits);
  P4  the following row carries the marker: its first `^` is exactly (column - 1) characters to the right of where D starts,
      and the padding below D repeats D's tabs (so that the marker stays under the column in a terminal);
  P5  some row shows `<L>:<C>`.
"""
import z3
from mirsym.values import *

CR_PIC = list("␍".encode()); LF_PIC = list("␊".encode())


class Sy:
    def __init__(self, W): self.W = W; self.memo = {}

    def eq(self, b, k):
        if not is_sym(b): return b == k
        key = (b.get_id(), k)
        if key not in self.memo: self.memo[key] = self.W.branch(b == k)
        return self.memo[key]

    def cont(self, b):
        if not is_sym(b): return 0x80 <= b < 0xC0
        key = (b.get_id(), "c")
        if key not in self.memo: self.memo[key] = self.W.branch(z3.And(z3.UGE(b, 0x80), z3.ULT(b, 0xC0)))
        return self.memo[key]

    def same(self, x, y):
        if not is_sym(x) and not is_sym(y): return x == y
        return self.W.must(x == y)

    def seq_same(self, a, b):
        return len(a) == len(b) and all(self.same(x, y) for x, y in zip(a, b))

    def chars(self, bs):
        out = []
        for b in bs:
            if self.cont(b) and out: out[-1].append(b)
            else: out.append([b])
        return out

    def rows(self, bs):
        out = [[]]
        for b in bs:
            if self.eq(b, 10): out.append([])
            else: out[-1].append(b)
        return out


def reference(sy, full, off):
    """-> (line, col, line_bytes) of char-boundary offset `off` in `full` (forks on the bytes it looks at)"""
    ls = off
    while ls > 0 and not sy.eq(full[ls - 1], 10): ls -= 1
    line = 1 + sum(1 for i in range(ls) if sy.eq(full[i], 10))
    col = 1 + sum(1 for i in range(ls, off) if not sy.cont(full[i]))
    le = off
    while le < len(full) and not sy.eq(full[le], 10): le += 1
    if le < len(full): le += 1
    return line, col, full[ls:le]


def shows_line(sy, D, linebytes):
    """D is the line's text where every CR / LF is either left out or shown as its picture (U+240D / U+240A)"""
    def go(i, j):
        if i == len(linebytes): return j == len(D)
        b = linebytes[i]
        pic = LF_PIC if sy.eq(b, 10) else CR_PIC if sy.eq(b, 13) else None
        if pic is None:
            return j < len(D) and sy.same(D[j], b) and go(i + 1, j + 1)
        if go(i + 1, j): return True
        return j + 3 <= len(D) and all(sy.same(D[j + k], pic[k]) for k in range(3)) and go(i + 1, j + 3)
    return go(0, 0)


def find_sub(row, pat):
    n = len(pat)
    for i in range(len(row) - n + 1):
        if all((not is_sym(row[i + j])) and row[i + j] == pat[j] for j in range(n)): return i
    return -1


def check_rendering(sy, out, L, C, linebytes, want_text=True):
    """-> list of problem strings (empty = the rendering shows line L, the line's text, and a marker under column C)"""
    probs = []
    rows = sy.rows(out)
    hdr = f"{L}:{C}".encode()
    if not any(find_sub(r, hdr) >= 0 for r in rows): probs.append(f"no row shows {L}:{C}")
    pre = list(f"{L} | ".encode())
    g = len(pre)
    ti = None
    for i, r in enumerate(rows):
        if len(r) >= g and all(sy.eq(r[j], pre[j]) for j in range(g)): ti = i; break
    if ti is None:
        probs.append(f"no row starts with the line number `{L} | `"); return probs
    D = rows[ti][g:]
    if want_text:
        if not shows_line(sy, D, linebytes):
            probs.append("the row of line %d does not show that line's text" % L)
    # the marker row: first later row containing '^'
    mi = None
    for i in range(ti + 1, len(rows)):
        if any(sy.eq(b, 0x5E) for b in rows[i]): mi = i; break
    if mi is None:
        probs.append("no marker row"); return probs
    mch = sy.chars(rows[mi])
    k = next(i for i, c in enumerate(mch) if len(c) == 1 and sy.eq(c[0], 0x5E))
    if k != g + C - 1:
        probs.append(f"marker is under column {k - g + 1}, reported column is {C}")
        return probs
    dch = sy.chars(D)
    for j in range(C - 1):
        c = mch[g + j]
        want_tab = j < len(dch) and len(dch[j]) == 1 and sy.eq(dch[j][0], 9)
        if not (len(c) == 1 and sy.eq(c[0], 9 if want_tab else 32)):
            probs.append(f"padding under column {j + 1} is not a {'tab' if want_tab else 'space'}"); break
    return probs


def explore_render(args):
    """one job = one (prefix K, N symbolic bytes, start offset, end offset or None); explores every class of text"""
    import time
    from mirsym.interp import Explorer, Interp
    from mirsym.summaries import S
    from mirsym.setup import fn_evidence
    from progsym import utf8_constraints
    P, K, n, s, e = args
    ex = Explorer(max_steps=2_000_000)
    bs = [z3.BitVec(f"b{i}", 8) for i in range(n)]
    ex.add_base(*utf8_constraints(bs))
    full = [10] * K + bs
    rows = []; fns = set()

    def body(W):
        I = Interp(P, W, S)
        sy = Sy(W)
        text = SliceRef(VecObj(list(full), "input"), 0, len(full), True)
        for o in ([s] if e is None else [s, e]):
            if o < len(full) and sy.cont(full[o]): return {"skip": "not a char boundary"}
        L, C, lb = reference(sy, full, s)
        res = {"L": L, "C": C}
        try:
            msg = VecObj(list(b"boom"), "String")
            var = Enum("ErrorVariant", "CustomError", 1, [msg])
            if e is None:
                p = I.call("", "Position::new", [text, s])
                if p.idx != 1: return {"problems": [f"Position::new rejected boundary offset {s}"], **res}
                err = I.call("", "Error::new_from_pos", [var, p.f[0]])
            else:
                sp = I.call("", "Span::new", [text, s, e])
                if sp.idx != 1: return {"problems": [f"Span::new rejected ordered boundary offsets {s},{e}"], **res}
                err = I.call("", "Error::new_from_span", [var, sp.f[0]])
            out = I.call("", "Error::format", [Ptr(Cell(err))]).f
        except Panic as ex_:
            fns.update(I.fn_used)
            return {"problems": [f"PANIC {ex_}"], "panic": True, **res}
        fns.update(I.fn_used)
        probs = []
        lc = err.f[2]; loc = err.f[1]
        if e is None:
            if not (lc.idx == 0 and sy.same(lc.f[0].f[0], L) and sy.same(lc.f[0].f[1], C)):
                probs.append(f"Error.line_col = {lc!r}, reference {(L, C)}")
            if not (loc.idx == 0 and sy.same(loc.f[0], s)): probs.append(f"Error.location = {loc!r}, offset {s}")
            probs += check_rendering(sy, out, L, C, lb)
        else:
            Le, Ce, _ = reference(sy, full, e)
            if not (lc.idx == 1 and sy.same(lc.f[0].f[0], L) and sy.same(lc.f[0].f[1], C)):
                probs.append(f"Error.line_col start = {lc!r}, reference {(L, C)}")
            if not (loc.idx == 1 and sy.same(loc.f[0].f[0], s) and sy.same(loc.f[0].f[1], e)): probs.append(f"Error.location = {loc!r}")
            if Le == L and Ce != 1:
                # a span inside one line: the opening marker sits under the start column
                probs += check_rendering(sy, out, L, C, lb)
            else:
                rws = sy.rows(out)
                if not any(find_sub(r, f"{L}:{C}".encode()) >= 0 for r in rws): probs.append(f"no row shows {L}:{C}")
        res["out"] = out; res["problems"] = probs
        return res

    t0 = time.time()
    for W, res in ex.explore(body):
        if isinstance(res, Exception):
            rows.append({"event": f"{type(res).__name__}: {res}"[:600], "stack": getattr(res, "mir_stack", None)}); continue
        if "skip" in res: continue
        m = W.get_model()
        ev = lambda b: b if not is_sym(b) else m.eval(b, model_completion=True).as_long()
        txt = bytes(ev(b) for b in full)
        row = {"K": K, "n": n, "s": s, "e": e, "text": txt.hex() or "-", "problems": res["problems"], "L": res["L"], "C": res["C"]}
        if "out" in res: row["out"] = bytes(ev(b) for b in res["out"]).hex() or "-"
        if res.get("panic"): row["panic"] = True
        rows.append(row)
    return {"rows": rows, "queries": ex.nqueries, "solver_s": ex.solver_time, "fns": fn_evidence(fns), "wall": time.time() - t0}


def jobs(P, nmax, prefixes, nprefix):
    out = []
    for n in range(nmax + 1):
        for s in range(n + 1):
            out.append((P, 0, n, s, None))
            for e in range(s, n + 1): out.append((P, 0, n, s, e))
    for K in prefixes:
        for n in range(1, nprefix + 1):
            for s in range(K, K + n + 1):
                out.append((P, K, n, s, None))
            out.append((P, K, n, K, K + n))
    return out


def native_line(row):
    return f"{row['s']} {'-' if row['e'] is None else row['e']} {row['text']}"
