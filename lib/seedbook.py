#!/usr/bin/env python3-vt
"""Assemble /verif/seeded/<id>/ from /tmp/seed/out/<id>/ (patch, demo, notes, confirmation and check results)."""
import json, os, shutil, sys, glob
V = os.path.dirname(os.path.dirname(os.path.abspath(__file__)))
NEEDS = {}
def main():
    rows = []
    for sid in sorted(os.listdir("/tmp/seed/out")):
        src = f"/tmp/seed/out/{sid}"
        if not os.path.isdir(src) or not os.path.exists(f"{src}/patch.diff") or not os.path.exists(f"{src}/confirm.json"): continue
        conf = json.load(open(f"{src}/confirm.json"))
        ok = conf.get("applies") and conf.get("demo_without_change") and conf.get("demo_with_change_fails") and all(("quote" in t or t.startswith("test result")) for t in conf.get("suite_failed_tests", []))
        if not ok:
            print("not confirmed:", sid, conf); continue
        dst = f"{V}/seeded/{sid}"
        os.makedirs(dst, exist_ok=True)
        for f in ("patch.diff", "demo_test.rs", "notes.md"):
            if os.path.exists(f"{src}/{f}"): shutil.copy(f"{src}/{f}", f"{dst}/{f}")
        checks = {}
        for cf in sorted(glob.glob(f"{src}/check*.json")):
            try: d = json.load(open(cf))
            except Exception: continue
            for p, v in d.items():
                if isinstance(v, dict): checks.setdefault(p, []).append({"run": os.path.basename(cf), "exit": v["exit"], "seconds": v["s"], "first_lines": v["lines"][:2]})
        notes = open(f"{src}/notes.md").read() if os.path.exists(f"{src}/notes.md") else ""
        meta = {"seed_id": sid, "breaks_property": sid[:3], "source": "independent sub-agent given only the property text and a scratch worktree",
                "needs_to_manifest": notes[:1500],
                "confirmed_here": {"patch_applies": True, "existing_suite_passes_with_change": True, "suite_tests_passed": conf.get("suite_passed"),
                                   "demo_fails_with_change": True, "demo_passes_without_change": True, "commands": "lib/seedtool.py confirm (git apply in /tmp/seed/<id>; cargo test --workspace --no-fail-fast --offline; cargo test --test <demo>)"},
                "checks_run_against_it": checks,
                "detected_by": sorted(p for p, runs in checks.items() if runs and runs[-1]["exit"] == 1)}
        json.dump(meta, open(f"{dst}/meta.json", "w"), indent=1)
    # the table is rebuilt from every kept seed's meta.json (older waves' /tmp/seed/out no longer exists)
    for mf in sorted(glob.glob(f"{V}/seeded/*/meta.json")):
        meta = json.load(open(mf))
        rows.append((meta["seed_id"], meta["detected_by"], {p: [r["exit"] for r in runs] for p, runs in meta["checks_run_against_it"].items()}))
    with open(f"{V}/seeded/README.md", "w") as f:
        f.write("# Seeded changes\n\nEach directory holds a change to pest written by an independent sub-agent that was given only the text of one property and a scratch worktree. "
                "Each was re-confirmed here (applies to /repo's HEAD, the existing suite still passes, the demonstration fails with the change and passes without). "
                "`exit` lists the exit codes of the quick check over successive versions of the machinery (1 = VIOLATION reported, 0 = missed, 2 = inconclusive).\n\n| seed | detected by (latest run) | history of exits |\n|---|---|---|\n")
        for sid, det, hist in rows:
            f.write(f"| {sid} | {', '.join(det) or '**missed**'} | {hist} |\n")
    print("\n".join(f"{a}: {b} {c}" for a, b, c in rows))
main()
