"""fork-based parallel map (the loaded MIR program is shared copy-on-write)."""
import multiprocessing as mp, os, traceback

_FN = None


def _call(a):
    try:
        return ("ok", _FN(a))
    except BaseException as e:
        return ("err", f"{type(e).__name__}: {str(e)[:600]}\n{traceback.format_exc()[-1500:]}")


def pmap(fn, items, nproc=16):
    global _FN
    _FN = fn
    items = list(items)
    if nproc <= 1 or len(items) <= 1:
        return [_call(a) for a in items]
    ctx = mp.get_context("fork")
    with ctx.Pool(min(nproc, len(items))) as pool:
        return pool.map(_call, items, chunksize=1)
