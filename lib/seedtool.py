#!/usr/bin/env python3-vt
"""Confirm a seeded change and run the checks against it.
usage: seedtool.py confirm <ID> <crate> <demo-dest-relpath>      (in the scratch worktree /tmp/seed/<ID>)
       seedtool.py check <patch> <PROP> [<PROP>...]              (apply to /repo, run ./check, undo)
       seedtool.py pcheck <ID> <PROP> [<PROP>...]                (same on a scratch worktree; safe to run several at once)"""
import sys, os, subprocess, json, shutil, time
V = os.path.dirname(os.path.dirname(os.path.abspath(__file__)))
ENV = dict(os.environ, CARGO_NET_OFFLINE="true", CARGO_TARGET_DIR="/tmp/seed/target")
SRC_REPO = os.environ.get("VERIF_REPO", "/repo")


def sh(cmd, cwd, timeout=3600):
    p = subprocess.run(cmd, cwd=cwd, shell=True, env=ENV, capture_output=True, text=True, timeout=timeout)
    return p.returncode, p.stdout + p.stderr


def confirm(sid, crate, dest):
    wt = f"/tmp/seed/{sid}"; out = f"/tmp/seed/out/{sid}"
    if os.path.isdir(f"/tmp/seed/tgt-{sid}"): ENV["CARGO_TARGET_DIR"] = f"/tmp/seed/tgt-{sid}"     # the sub-agent's build, so confirmations can run in parallel
    res = {"id": sid}
    sh("git checkout -q -- . && git clean -fdq", wt)
    # the worktree may predate later fix commits of /repo: bring it to /repo's HEAD
    sh("git checkout -q --detach $(git -C /repo rev-parse HEAD)", wt)
    rc, o = sh(f"git apply --check {out}/patch.diff", wt); res["applies"] = rc == 0
    if rc != 0:
        res["apply_error"] = o[-500:]; return res
    os.makedirs(os.path.dirname(os.path.join(wt, dest)), exist_ok=True)
    shutil.copy(f"{out}/demo_test.rs", os.path.join(wt, dest))
    test = os.path.splitext(os.path.basename(dest))[0]
    rc, o = sh(f"cargo test -p {crate} --test {test} --offline 2>&1 | tail -15", wt); res["demo_without_change"] = "test result: ok" in o and "FAILED" not in o
    res["demo_without_tail"] = o[-300:]
    sh(f"git apply {out}/patch.diff", wt)
    rc, o = sh(f"cargo test -p {crate} --test {test} --offline 2>&1 | tail -25", wt); res["demo_with_change_fails"] = any(k in o for k in ("FAILED", "panicked", "stack overflow", "SIGABRT", "error: test failed", "process didn't exit successfully"))
    res["demo_with_tail"] = o[-400:]
    os.remove(os.path.join(wt, dest))
    rc, o = sh("cargo test --workspace --no-fail-fast --offline 2>&1 | grep -E '^test result|^test .* FAILED|error(\\[|:)' ", wt)
    failed = [l for l in o.split("\n") if l.startswith("test ") and l.rstrip().endswith("FAILED") and not l.startswith("test result")]
    res["suite_failed_tests"] = failed
    res["suite_ok"] = all("quote" in l for l in failed) and "error" not in o
    res["suite_passed"] = sum(int(l.split()[3]) for l in o.split("\n") if l.startswith("test result"))
    sh("git checkout -q -- . && git clean -fdq", wt)
    return res


def check(patch, props, tier="quick"):
    out = {}
    rc, o = sh(f"git -C /repo apply --check {patch}", "/repo")
    if rc != 0: return {"error": "patch does not apply to /repo: " + o[-300:]}
    sh(f"git -C /repo apply {patch}", "/repo")
    try:
        for p in props:
            t = time.time()
            pr = subprocess.run(["./check", p, "--tier", tier], cwd=V, capture_output=True, text=True, timeout=7200)
            lines = [l for l in pr.stdout.split("\n") if l.startswith(("VIOLATION", "INCONCLUSIVE", "  detail"))]
            out[p] = {"exit": pr.returncode, "s": round(time.time() - t), "lines": [l[:400] for l in lines[:4]]}
    finally:
        sh(f"git -C /repo apply -R {patch}", "/repo"); sh("git -C /repo checkout -- .", "/repo")
    return out


def pcheck(sid, props, tier="quick"):
    """parallel-safe variant of check: the change is applied to a scratch worktree and the checks run with VERIF_REPO,
    VERIF_WORK, VERIF_EVID, VERIF_REPLAYS pointing into /tmp/seed/chk-<sid>, so /repo and /verif/evidence are untouched"""
    scr = f"/tmp/seed/chk-{sid}"; repo = scr + "/repo"; patch = f"/tmp/seed/out/{sid}/patch.diff"
    subprocess.run(["git", "-C", SRC_REPO, "worktree", "remove", "--force", repo], capture_output=True)
    os.makedirs(scr, exist_ok=True)
    subprocess.run(["git", "-C", SRC_REPO, "worktree", "add", "--detach", repo, "HEAD"], check=True, capture_output=True)
    env = dict(os.environ, VERIF_REPO=repo, VERIF_WORK=scr + "/work", VERIF_EVID=scr + "/evidence", VERIF_REPLAYS=scr + "/replays")
    out = {}
    try:
        subprocess.run(["git", "-C", repo, "apply", patch], check=True)
        for p in props:
            t = time.time()
            pr = subprocess.run(["./check", p, "--tier", tier], cwd=V, capture_output=True, text=True, timeout=7200, env=env)
            lines = [l for l in pr.stdout.split("\n") if l.startswith(("VIOLATION", "INCONCLUSIVE", "  detail"))]
            out[p] = {"exit": pr.returncode, "s": round(time.time() - t), "lines": [l[:400] for l in lines[:4]]}
            if pr.returncode not in (0, 1): out[p]["stderr_tail"] = pr.stderr[-1500:]
    finally:
        subprocess.run(["git", "-C", SRC_REPO, "worktree", "remove", "--force", repo], capture_output=True)
        subprocess.run(["rm", "-rf", scr])
    return out


if __name__ == "__main__":
    if sys.argv[1] == "pcheck":
        print(json.dumps(pcheck(sys.argv[2], sys.argv[3:]), indent=1))
    elif sys.argv[1] == "confirm":
        print(json.dumps(confirm(sys.argv[2], sys.argv[3], sys.argv[4]), indent=1))
    else:
        print(json.dumps(check(sys.argv[2], sys.argv[3:]), indent=1))
