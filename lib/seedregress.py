#!/usr/bin/env python3-vt
"""Regression test of the machinery: apply every kept seeded change (seeded/<id>/patch.diff) to /repo, run the quick
checks that are recorded as catching it, undo the change, and record the exit codes in seeded/regression.json.
A seed counts as detected when at least one of its checks exits 1 (VIOLATION reproduced natively).
usage: seedregress.py [<seed-id> ...]
The change is applied to a scratch worktree of /repo (under /tmp, removed at the end) and the checks run with VERIF_REPO,
VERIF_WORK, VERIF_EVID and VERIF_REPLAYS pointing into the scratch area, so /repo and /verif/evidence are not touched."""
import json, os, subprocess, sys, time
V = os.path.dirname(os.path.dirname(os.path.abspath(__file__)))
SRC_REPO = os.environ.get("VERIF_REPO", "/repo")
SCR = "/tmp/verif-seedregress"
REPO = SCR + "/repo"


def main():
    ids = sys.argv[1:] or sorted(d for d in os.listdir(f"{V}/seeded") if os.path.exists(f"{V}/seeded/{d}/patch.diff"))
    subprocess.run(["git", "-C", SRC_REPO, "worktree", "remove", "--force", REPO], capture_output=True)
    os.makedirs(SCR, exist_ok=True)
    subprocess.run(["git", "-C", SRC_REPO, "worktree", "add", "--detach", REPO, "HEAD"], check=True, capture_output=True)
    env = dict(os.environ, VERIF_REPO=REPO, VERIF_WORK=SCR + "/work", VERIF_EVID=SCR + "/evidence", VERIF_REPLAYS=SCR + "/replays")
    try:
        return run(ids, env)
    finally:
        subprocess.run(["git", "-C", SRC_REPO, "worktree", "remove", "--force", REPO], capture_output=True)
        if not os.environ.get("SEEDREGRESS_KEEP"): subprocess.run(["rm", "-rf", SCR])


def run(ids, env):
    out = {}
    path = f"{V}/seeded/regression.json"
    if os.path.exists(path) and sys.argv[1:]: out = json.load(open(path))
    for sid in ids:
        meta = json.load(open(f"{V}/seeded/{sid}/meta.json"))
        props = meta.get("detected_by") or [meta["breaks_property"]]
        patch = f"{V}/seeded/{sid}/patch.diff"
        if subprocess.run(["git", "-C", REPO, "apply", "--check", patch]).returncode != 0:
            out[sid] = {"error": "patch no longer applies"}; print(sid, out[sid]); continue
        subprocess.run(["git", "-C", REPO, "apply", patch], check=True)
        res = {}
        try:
            for p in props[:2]:
                t = time.time()
                pr = subprocess.run(["./check", p, "--tier", "quick"], cwd=V, capture_output=True, text=True, timeout=7200, env=env)
                first = next((l for l in pr.stdout.split("\n") if l.startswith(("VIOLATION", "INCONCLUSIVE"))), "")
                res[p] = {"exit": pr.returncode, "seconds": round(time.time() - t), "first": first[:300]}
                if pr.returncode not in (0, 1): res[p]["stderr_tail"] = pr.stderr[-1500:]
                if pr.returncode == 1: break
        finally:
            subprocess.run(["git", "-C", REPO, "apply", "-R", patch], capture_output=True)      # also removes files the change added
            subprocess.run(["git", "-C", REPO, "checkout", "--", "."], check=True)
        out[sid] = {"checks": res, "detected": any(v["exit"] == 1 for v in res.values())}
        print(sid, "DETECTED" if out[sid]["detected"] else "MISSED", {p: v["exit"] for p, v in res.items()}, flush=True)
        json.dump(out, open(path, "w"), indent=1)
    missed = [s for s, v in out.items() if not v.get("detected")]
    print(f"{len(out) - len(missed)}/{len(out)} seeds detected" + (f"; missed: {missed}" if missed else ""))
    return 1 if missed else 0


sys.exit(main())
