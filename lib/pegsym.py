"""Grammars: reader for the rule s-expressions printed by verif-native, the reference PEG semantics (PegRef, the
documented semantics of derive/src/lib.rs) on symbolic input, and construction of a pest_vm::Vm value in the executor's heap."""
import re, z3
from mirsym.values import *
from progsym import Ref, RefState, RefPanic, class_pred, _cmp_ule, hexs
from mirsym.interp import _and, _or

# --------------------------------------------------------------------------- reader
def _tok(s):
    return re.findall(r"\(|\)|[^\s()]+", s)


def parse_rules(s):
    """'(rule NAME TYPE expr) (rule ...)' -> list of (name, type, expr) ; expr = nested tuples"""
    t = _tok(s); i = 0
    out = []

    def unhex(x): return b"" if x == "-" else bytes.fromhex(x)

    def node():
        nonlocal i
        assert t[i] == "("; i += 1
        h = t[i]; i += 1
        if h in ("str", "insens", "push_lit"):
            r = (h, unhex(t[i])); i += 1
        elif h == "range":
            r = (h, unhex(t[i]), unhex(t[i + 1])); i += 2
        elif h == "ident":
            r = (h, t[i]); i += 1
        elif h == "peek_slice":
            a = int(t[i]); b = None if t[i + 1] == "-" else int(t[i + 1]); i += 2
            r = (h, a, b)
        elif h in ("pos", "neg", "opt", "rep", "rep_once", "push", "restore_on_err"):
            r = (h, node())
        elif h in ("seq", "choice"):
            a = node(); b = node(); r = (h, a, b)
        elif h in ("rep_exact", "rep_min", "rep_max"):
            n = int(t[i]); i += 1
            r = (h, n, node())
        elif h == "rep_min_max":
            m, n = int(t[i]), int(t[i + 1]); i += 2
            r = (h, m, n, node())
        elif h == "skip":
            v = []
            while t[i] != ")":
                v.append(unhex(t[i])); i += 1
            r = (h, v)
        elif h == "tag":
            tg = unhex(t[i]); i += 1
            r = (h, tg, node())
        else:
            raise ValueError("expr head " + h)
        assert t[i] == ")"; i += 1
        return r

    while i < len(t):
        assert t[i] == "(" and t[i + 1] == "rule"; i += 2
        name, ty = t[i], t[i + 1]; i += 2
        e = node()
        assert t[i] == ")"; i += 1
        out.append((name, ty, e))
    return out


def parse_front_reply(rep):
    """reply of `verif-native grammar` -> dict stage -> rules, or {'error': ...}"""
    if not rep.startswith("OK "): return {"error": rep}
    d = {}
    for part in rep[3:].split(" ## "):
        k, v = part.split("=", 1)
        d[k] = parse_rules(v)
    return d


def expr_text(e):
    """compact display"""
    k = e[0]
    if k in ("str", "insens", "push_lit"): return f"{k}:{e[1]!r}"
    if k == "ident": return e[1]
    if k in ("seq", "choice"): return "(" + expr_text(e[1]) + (" ~ " if k == "seq" else " | ") + expr_text(e[2]) + ")"
    return "(" + " ".join(expr_text(x) if isinstance(x, tuple) else str(x) for x in e) + ")"


# --------------------------------------------------------------------------- reference semantics
ASCII_RANGES = {
    "ASCII_DIGIT": [(48, 57)], "ASCII_NONZERO_DIGIT": [(49, 57)], "ASCII_BIN_DIGIT": [(48, 49)], "ASCII_OCT_DIGIT": [(48, 55)],
    "ASCII_HEX_DIGIT": [(48, 57), (97, 102), (65, 70)], "ASCII_ALPHA_LOWER": [(97, 122)], "ASCII_ALPHA_UPPER": [(65, 90)],
    "ASCII_ALPHA": [(97, 122), (65, 90)], "ASCII_ALPHANUMERIC": [(97, 122), (65, 90), (48, 57)], "ASCII": [(0, 127)],
}
BUILTINS = set(ASCII_RANGES) | {"ANY", "EOI", "SOI", "PEEK", "PEEK_ALL", "POP", "POP_ALL", "DROP", "NEWLINE"}


class NonTermination(Exception):
    """the reference re-entered a rule / iterated a repetition without consuming: the parse does not terminate"""


class PegRef(Ref):
    """documented PEG semantics of the grammar language over symbolic input. Tokens carry rule names (bytes)."""

    def __init__(self, W, inp, rules, user_first=True, log=None, tag_legacy=False):
        Ref.__init__(self, W, inp)
        self.tag_legacy = tag_legacy
        self.rules = {n: (ty, e) for n, ty, e in rules}
        self.has_ws = "WHITESPACE" in self.rules
        self.has_cm = "COMMENT" in self.rules
        self.user_first = user_first
        self.active = []          # (rule, pos, stack depth, atomicity) currently being evaluated: re-entry = left recursion
        self.attempts = log       # optional list collecting (rule, pos, ok, reportable, negated) for C08
        self.fuel = 20000
        # the failure report prescribed by the statement of C08: furthest position and the rules reported there
        self.rep_pos = 0; self.rep_P = []; self.rep_N = []

    # ---- implicit skipping
    def skip(self, st):
        if st.at != 2 or not (self.has_ws or self.has_cm): return
        while True:
            p = st.pos
            moved = False
            for nm in ("WHITESPACE", "COMMENT"):
                if nm in self.rules:
                    sv = self.save(st)
                    if self.call_rule(nm, st):
                        if st.pos == sv[0]:
                            raise NonTermination(f"{nm} matches the empty string inside the implicit repetition")
                        moved = True
                    else:
                        self.restore(st, sv)
            if not moved: return

    def save(self, st): return (st.pos, len(st.queue), [list(x) for x in st.stack])

    def restore(self, st, sv):
        st.pos = sv[0]; del st.queue[sv[1]:]; st.stack = sv[2]

    # ---- rules
    def call_rule(self, name, st):
        self.fuel -= 1
        if self.fuel < 0: raise StepLimit("reference: fuel exhausted")
        user = name in self.rules
        if name in BUILTINS and not (user and self.user_first):
            return self.builtin(name, st)
        if not user:
            raise RefPanic(f"undefined rule {name}")
        key = (name, st.pos, len(st.stack), st.at, st.la)
        if key in self.active:
            raise NonTermination(f"rule {name} re-entered at position {st.pos} without consuming input")
        self.active.append(key)
        try:
            ty, e = self.rules[name]
            if name in ("WHITESPACE", "COMMENT") and ty in ("normal", "silent"):
                ty = {"normal": "atomic", "silent": "silent_atomic"}[ty]
            return self.apply_rule(name.encode(), ty, e, st)
        finally:
            self.active.pop()

    def apply_rule(self, rname, ty, e, st):
        old_at = st.at
        start = st.pos
        if ty == "compound": st.at = 1
        elif ty == "nonatomic": st.at = 2
        emit = ty not in ("silent", "silent_atomic") and st.la == 2 and st.at != 0
        reportable = ty not in ("silent", "silent_atomic") and st.at != 0
        idx = len(st.queue)
        if emit: st.queue.append(["S", 0, st.pos])
        # what had been reported at this very position when the rule was entered (None: the furthest report is elsewhere)
        entry = (len(self.rep_P), len(self.rep_N)) if start == self.rep_pos else None
        if ty in ("atomic", "silent_atomic"): st.at = 0
        sv_stack = [list(x) for x in st.stack]
        okk = self.eval(e, st)
        st.at = old_at
        if emit:
            if okk:
                st.queue[idx][1] = len(st.queue)
                st.queue.append(["E", idx, rname, None, st.pos])
            else:
                del st.queue[idx:]
        if not okk: st.stack = sv_stack
        if self.attempts is not None and ty not in ("silent", "silent_atomic"):
            self.attempts.append((rname, start, okk, reportable, st.la))
        if reportable and ((not okk and st.la != 1) or (okk and st.la == 1)):
            self.report(rname, start, entry, st.la == 1)
        return okk

    def report(self, rname, start, entry, negated):
        """C08: the report names the furthest position at which a reportable rule failed (or matched under negation); a
        rule is reported in place of the rules tried inside it at the same position unless exactly one such rule was tried"""
        if start < self.rep_pos: return
        if start > self.rep_pos:
            self.rep_pos = start; self.rep_P = []; self.rep_N = []
            inside = 0
        else:
            eP, eN = entry if entry is not None else (0, 0)
            inside = (len(self.rep_P) - eP) + (len(self.rep_N) - eN)
            if inside == 1: return
            del self.rep_P[eP:]; del self.rep_N[eN:]
        (self.rep_N if negated else self.rep_P).append(rname)

    def builtin(self, name, st):
        if name == "ANY": return self.run(("skip", 1), st)
        if name == "SOI": return st.pos == 0
        if name == "EOI":
            return self.apply_rule(b"EOI", "normal", ("eoi_prim",), st)
        if name == "PEEK": return self.run(("peek",), st)
        if name == "PEEK_ALL": return self.run(("match_peek",), st)
        if name == "POP": return self.run(("pop",), st)
        if name == "POP_ALL": return self.run(("match_pop",), st)
        if name == "DROP": return self.run(("drop",), st)
        if name == "NEWLINE":
            for lit in (b"\n", b"\r\n", b"\r"):
                if self.run(("str", lit), st): return True
            return False
        rs = ASCII_RANGES[name]
        if st.pos >= self.n: return False
        c, ln = self.decode(st.pos)
        cond = False
        for a, b in rs: cond = _or(cond, _and(_cmp_ule(a, c), _cmp_ule(c, b)))
        if self.br(cond):
            st.pos += ln; return True
        return False

    # ---- expressions
    def eval(self, e, st):
        """all-or-nothing for the stack on failure (an expression may change the stack only if it matches)"""
        k = e[0]
        if k == "eoi_prim": return st.pos == self.n
        if k in ("str", "insens"): return self.run(e, st)
        if k == "range":
            lo = ord(e[1].decode()[0]); hi = ord(e[2].decode()[0])
            return self.run(("range", lo, hi), st)
        if k == "ident": return self.call_rule(e[1], st)
        if k == "peek_slice":
            return self.peek_slice(st, e[1], e[2], False)
        if k in ("pos", "neg"):
            sv = (st.pos, list(st.queue), [list(x) for x in st.stack], st.la)
            if k == "pos": st.la = 0 if st.la in (2, 0) else 1
            else: st.la = 1 if st.la in (2, 0) else 0
            okk = self.eval(e[1], st)
            st.pos, st.queue, st.stack, st.la = sv
            return okk if k == "pos" else not okk
        if k == "seq":
            sv = self.save(st)
            if self.eval(e[1], st):
                self.skip(st)
                if self.eval(e[2], st): return True
            self.restore(st, sv)
            return False
        if k == "choice":
            sv = self.save(st)
            if self.eval(e[1], st): return True
            self.restore(st, sv)
            if self.eval(e[2], st): return True
            self.restore(st, sv)
            return False
        if k == "opt":
            sv = self.save(st)
            if not self.eval(e[1], st): self.restore(st, sv)
            return True
        if k in ("rep", "rep_once", "rep_exact", "rep_min", "rep_max", "rep_min_max"):
            if k == "rep": lo, hi, body = 0, None, e[1]
            elif k == "rep_once": lo, hi, body = 1, None, e[1]
            elif k == "rep_exact": lo, hi, body = e[1], e[1], e[2]
            elif k == "rep_min": lo, hi, body = e[1], None, e[2]
            elif k == "rep_max": lo, hi, body = 0, e[1], e[2]
            else: lo, hi, body = e[1], e[2], e[3]
            return self.repeat(body, lo, hi, st)
        if k == "skip":
            return self.run(("skip_until", e[1]), st)
        if k == "push":
            a = st.pos
            okk = self.eval(e[1], st)
            if okk: st.stack.append(self.inp[a:st.pos])
            return okk
        if k == "push_lit":
            st.stack.append(list(e[1])); return True
        if k == "tag":
            qlen = len(st.queue)
            okk = self.eval(e[2], st)
            # the tag names the pair produced by the tagged expression; an expression that produced no pair tags nothing
            if okk and st.la == 2 and (len(st.queue) > qlen or self.tag_legacy) and st.queue and st.queue[-1][0] == "E":
                st.queue[-1][3] = bytes(e[1])
            return okk
        if k == "restore_on_err":
            sv = [list(x) for x in st.stack]
            okk = self.eval(e[1], st)
            if not okk: st.stack = sv
            return okk
        raise ValueError("expr " + k)

    def tag_applies(self, inner): return True

    def repeat(self, body, lo, hi, st):
        """greedy: body (skip body)* between lo and hi times; the skip before an element is kept only if the element matches"""
        sv0 = self.save(st)
        count = 0
        while hi is None or count < hi:
            sv = self.save(st)
            if count > 0: self.skip(st)
            before = (st.pos, [list(x) for x in st.stack])
            if not self.eval(body, st):
                self.restore(st, sv); break
            count += 1
            if hi is None and st.pos == sv[0] and len(st.stack) == len(sv[2]):
                raise NonTermination("repetition body matched without consuming input")
            if count > 4 * self.n + 64: raise StepLimit("reference: repetition does not end")
        if count < lo:
            self.restore(st, sv0); return False
        return True


# --------------------------------------------------------------------------- Vm value in the executor's heap
def rstring(b): return VecObj(list(b), "String")


def build_expr(P, e):
    V = P.variants["OptimizedExpr"]
    def mk(var, *f): return Enum("OptimizedExpr", var, V.index(var), list(f))
    k = e[0]
    if k == "str": return mk("Str", rstring(e[1]))
    if k == "insens": return mk("Insens", rstring(e[1]))
    if k == "range": return mk("Range", rstring(e[1]), rstring(e[2]))
    if k == "ident": return mk("Ident", rstring(e[1].encode()))
    if k == "peek_slice": return mk("PeekSlice", e[1] & 0xFFFFFFFF, some(e[2] & 0xFFFFFFFF) if e[2] is not None else none())
    if k == "pos": return mk("PosPred", boxed(build_expr(P, e[1])))
    if k == "neg": return mk("NegPred", boxed(build_expr(P, e[1])))
    if k == "seq": return mk("Seq", boxed(build_expr(P, e[1])), boxed(build_expr(P, e[2])))
    if k == "choice": return mk("Choice", boxed(build_expr(P, e[1])), boxed(build_expr(P, e[2])))
    if k == "opt": return mk("Opt", boxed(build_expr(P, e[1])))
    if k == "rep": return mk("Rep", boxed(build_expr(P, e[1])))
    if k == "rep_once": return mk("RepOnce", boxed(build_expr(P, e[1])))
    if k == "skip": return mk("Skip", VecObj([rstring(x) for x in e[1]]))
    if k == "push": return mk("Push", boxed(build_expr(P, e[1])))
    if k == "push_lit": return mk("PushLiteral", rstring(e[1]))
    if k == "tag": return mk("NodeTag", boxed(build_expr(P, e[2])), rstring(e[1]))
    if k == "restore_on_err": return mk("RestoreOnErr", boxed(build_expr(P, e[1])))
    raise ValueError("not an optimized expression: " + k)


TY = {"normal": "Normal", "silent": "Silent", "atomic": "Atomic", "compound": "CompoundAtomic", "nonatomic": "NonAtomic"}


def build_vm(P, rules, I=None):
    """the Vm value for the given optimized rules; with an interpreter the real `Vm::new` is executed (so that whatever
    fields the working tree's Vm has are initialised by its own constructor)"""
    RT = P.variants["RuleType"]
    rs = [Agg([rstring(name.encode()), Enum("RuleType", TY[ty], RT.index(TY[ty])), build_expr(P, e)], "OptimizedRule") for name, ty, e in rules]
    if I is not None:
        return I.call("", "Vm::new", [VecObj(rs)])
    m = MapObj("HashMap")
    for (name, ty, e), r in zip(rules, rs):
        m.d[name.encode()] = Agg([rstring(name.encode()), r], "tuple")
    return Agg([m, none()], "Vm")


# --------------------------------------------------------------------------- concrete evaluation (attribution of a deviation to a pass)
class ConcreteWorld:
    def branch(self, c):
        if is_sym(c):
            c = z3.simplify(c)
            return z3.is_true(c)
        return bool(c)


def run_concrete(rules, start, inp, tag_legacy=False):
    """reference outcome on concrete input bytes -> dict(res,pos,toks,tags,stack)"""
    from vmsym import tok_str, tags_str
    rs = RefState()
    try:
        okk = PegRef(ConcreteWorld(), list(inp), rules, tag_legacy=tag_legacy).call_rule(start, rs)
    except RefPanic as e:
        return {"res": "PANIC", "msg": str(e)}
    except (NonTermination, StepLimit) as e:
        return {"res": "NONTERM", "msg": str(e)}
    return {"res": "OK" if okk else "ERR", "pos": rs.pos, "toks": tok_str(rs.queue), "tags": tags_str(rs.queue),
            "stack": ",".join(bytes(it).hex() or "-" for it in rs.stack)}


STAGE_ORDER = ["ast", "upto_rotate", "upto_skip", "upto_unroll", "upto_concatenate", "upto_factor", "upto_list", "pre_restore", "post_restore", "optimized"]
STAGE_PASS = {"upto_rotate": "rotate", "upto_skip": "skip", "upto_unroll": "unroll", "upto_concatenate": "concatenate", "upto_factor": "factor",
              "upto_list": "list", "pre_restore": "convert", "post_restore": "restore_on_err", "optimized": "pipeline-composition"}


def same_outcome(a, b):
    if a["res"] != b["res"]: return False
    if a["res"] == "OK": return all(str(a[k]) == str(b[k]) for k in ("pos", "toks", "tags", "stack"))
    return True


def attribute(stages, start, inp):
    """-> (list of passes at which the reference outcome changes on this input, outcome on the final optimized rules)"""
    prev = None; culprits = []
    last = None
    for st in STAGE_ORDER:
        if st not in stages: continue
        o = run_concrete(stages[st], start, inp)
        if prev is not None and not same_outcome(prev, o): culprits.append(STAGE_PASS[st])
        prev = o; last = o
    return culprits, last
