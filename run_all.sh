#!/bin/sh
# Runs every registered quick check one after the other (as `vp check` does) and prints one line per check.
cd "$(dirname "$0")"
export VERIF_SEED="${VERIF_SEED:-1}" VERIF_TIER=quick CARGO_NET_OFFLINE=true
for id in $(python3 -c "import json; print(' '.join(c['property_id'] for c in json.load(open('MANIFEST.json'))['checks']))"); do
  s=$(date +%s)
  ./check "$id" --tier quick > ".work/run_all_$id.log" 2>&1
  rc=$?
  echo "$id exit=$rc $(( $(date +%s) - s ))s $(grep -c '^KNOWN-FINDING' .work/run_all_$id.log) known-findings $(grep -m1 -E '^(VIOLATION|INCONCLUSIVE)' .work/run_all_$id.log | cut -c1-200)"
done
